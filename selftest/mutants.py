"""Sensitivity set: small, realistic slips applied to a scratch copy of the repository.  The quick tier of the named
check must flag each one (`./check selftest sensitivity`).  Entries are either a reverse patch of one of the `fix:`
commits (the original defect re-introduced) or one exact text replacement.
"""

MUTANTS = [
    # ------------------------------------------------------------------ C04
    {"name": "c04_collection_keeps_stale_cost", "property": "C04", "file": "edits.py",
     "old": "                if child.tighten_bounds():\n                    self._cost = None\n",
     "new": "                if child.tighten_bounds():\n",
     "expect": "any"},   # equivalent mutant: the cost is only ever cached once it is definitive
    {"name": "c04_matcher_lower_bound_from_largest", "property": "C04", "file": "matching.py",
     "old": "                lb = sum(smallest(\n", "new": "                lb = sum(largest(\n"},
    # (the line the earlier mutant c04_collection_upper_uses_lower altered was removed by fix b32d610)
    {"name": "c04_collection_lower_uses_upper", "property": "C04", "file": "edits.py",
     "old": "                total_cost.lower_bound += e.bounds().lower_bound\n",
     "new": "                total_cost.lower_bound += e.bounds().upper_bound\n"},
    {"name": "c04_levenshtein_lower_from_max_fringe", "property": "C04", "file": "levenshtein.py",
     "old": "                max(base_bounds.lower_bound, min(min(\n",
     "new": "                max(base_bounds.lower_bound, max(min(\n"},
    {"name": "c04_repeat_until_tightened_returns_early", "property": "C04", "file": "bounds.py",
     "old": "            elif new_bounds.definitive() or new_bounds.lower_bound > starting_bounds.lower_bound \\\n"
            "                    or new_bounds.upper_bound < starting_bounds.upper_bound:\n                return True\n",
     "new": "            else:\n                return True\n"},
    {"name": "c04_revert_collection_partial_upper", "property": "C04", "patch": "revert_b32d610.patch"},
    {"name": "c04_revert_search_upper_clamp", "property": "C04", "patch": "revert_04ecdb5.patch"},
    {"name": "c04_search_lower_bound_ignores_tightened", "property": "C04", "file": "search.py",
     "old": "        yield from self._untightened.nodes()\n        yield from self._tightened.nodes()\n",
     "new": "        yield from self._untightened.nodes()\n"},
    # ------------------------------------------------------------------ C05
    {"name": "c05_revert_matrix_freed_guard", "property": "C05", "patch": "revert_3e5b731.patch"},
    {"name": "c05_revert_last_cell_tightening", "property": "C05", "patch": "revert_7e1aa0d.patch"},
    {"name": "c05_revert_fixed_length_slice", "property": "C05", "patch": "revert_c9fd407.patch"},
    {"name": "c05_revert_dict_vs_set", "property": "C05", "patch": "revert_01089fb.patch"},
    {"name": "c05_contexts_not_reversed", "property": "C05", "file": "tree.py",
     "old": "                for sub_edit in reversed(list(edit.edits())):\n",
     "new": "                for sub_edit in list(edit.edits()):\n"},
    {"name": "c05_xml_complete_ignores_children", "property": "C05", "file": "xml.py",
     "old": "            and self.attrib_edit.is_complete() and self.child_edit.is_complete()\n",
     "new": "            and self.attrib_edit.is_complete()\n",
     "expect": "any"},   # benign: every edits() listing completes its own structure, cost and script are unchanged
    {"name": "c05_multiset_complete_too_early", "property": "C05", "file": "multiset.py",
     "old": "    def is_complete(self) -> bool:\n        return self._matcher.is_complete()\n",
     "new": "    def is_complete(self) -> bool:\n        return self._matcher.is_complete() or self._matcher._edges_are_distinct\n",
     "expect": "any"},   # benign for the same reason: .matching is computed from the same (distinct) edge state
    {"name": "c05_quiet_skips_cell_cost", "property": "C05", "file": "levenshtein.py",
     "old": "                        _, _, _ = self._best_match(row, col)\n",
     "new": "                        if not DEFAULT_PRINTER.quiet or row == 0 or col == 0 or (row + col) % 5:\n"
            "                            _, _, _ = self._best_match(row, col)\n"},
    {"name": "c05_edits_restart_expansion", "property": "C05", "file": "edits.py",
     "old": "    def edits(self) -> Iterator[Edit]:\n        yield from iter(self._sub_edits)\n        while True:\n",
     "new": "    def edits(self) -> Iterator[Edit]:\n        yield from list(self._sub_edits)\n        while True:\n",
     "expect": "any"},
    # ------------------------------------------------------------------ C07
    {"name": "c07_revert_removal_order", "property": "C07", "patch": "revert_b68365e.patch"},
    {"name": "c07_revert_colorama_rewrap", "property": "C07", "patch": "revert_b412316.patch"},
    {"name": "c07_revert_combining_mark_order", "property": "C07", "patch": "revert_594cf13.patch"},
    # (shares the children instead of copying them: make_edited() then raises ValueError from the parent setter for
    #  every list, identically everywhere and without touching the input - an internal error, i.e. C05's subject)
    {"name": "c05_sequence_copy_shares_children", "property": "C05", "file": "sequences.py",
     "old": "        ret['_children'] = self.container_type(n.make_edited() for n in self)\n        return ret\n\n    def print_parent_context",
     "new": "        ret['_children'] = self._children\n        return ret\n\n    def print_parent_context"},
    {"name": "c07_diff_annotates_input_root", "property": "C07", "file": "tree.py",
     "old": "        edit.on_diff(ret)\n        return ret\n",
     "new": "        edit.on_diff(ret)\n        self.edit = edit\n        return ret\n"},
    {"name": "c07_total_size_memo_on_wrong_node", "property": "C07", "file": "tree.py",
     "old": "                finally:\n                    wrapped_tree_node._parent = parent_before\n",
     "new": "                finally:\n                    if parent_before is not None or etn.__dict__.get('_children') is None:\n"
            "                        wrapped_tree_node._parent = parent_before\n", "expect": "any"},
    {"name": "c07_formatter_flag_leaks", "property": "C07", "file": "graphtage.py",
     "old": "    def print_StringEdit(self, printer: Printer, edit: StringEdit):\n        self._last_was_inserted = False\n"
            "        self._last_was_removed = False\n",
     "new": "    def print_StringEdit(self, printer: Printer, edit: StringEdit):\n",
     "expect": "any"},   # practically equivalent: the flags are reset again at the end of every print_StringEdit
    # ------------------------------------------------------------------ C16
    {"name": "c16_consolidate_strict_min", "property": "C16", "file": "fibonacci.py",
     "old": "                if a[i] <= self._min:\n", "new": "                if a[i] < self._min:\n"},
    {"name": "c16_cut_keeps_mark", "property": "C16", "file": "fibonacci.py",
     "old": "        x.parent = None\n        x.mark = False\n", "new": "        x.parent = None\n", "expect": "any"},
    {"name": "c16_extract_keeps_child_parent", "property": "C16", "file": "fibonacci.py",
     "old": "                    self._append_root(child)\n                    child.parent = None\n",
     "new": "                    self._append_root(child)\n"},
    {"name": "c16_decrease_key_no_min_update", "property": "C16", "file": "fibonacci.py",
     "old": "        if x < self._min:\n            self._min = x\n\n    def __add__",
     "new": "        if y is not None and x < self._min:\n            self._min = x\n\n    def __add__"},
    {"name": "c16_remove_skips_cascade", "property": "C16", "file": "fibonacci.py",
     "old": "        if y is not None and node < y:\n            self._cut(node, y)\n            self._cascading_cut(y)\n        self._min = node\n",
     "new": "        if y is not None and node < y:\n            self._cut(node, y)\n        self._min = node\n",
     "expect": "any"},
    {"name": "c16_len_not_decremented_on_remove", "property": "C16", "file": "fibonacci.py",
     "old": "        self._min = node\n        self._extract_min()\n",
     "new": "        self._min = node\n        self._extract_min()\n        if self._n % 7 == 3:\n            self._n += 1\n"},
    # a reviewer's failed "refactoring" (round 3, C16 v2): identity tie-break in HeapNode.__lt__ without the matching
    # strict scan in _consolidate - passes the 66 tests, corrupts the heap
    {"name": "c16_identity_tiebreak_half", "property": "C16", "patch": "c16_identity_tiebreak_half.patch"},
    # ------------------------------------------------------------------ C17
    {"name": "c17_revert_initial_bound_pruning", "property": "C17", "patch": "revert_0cd770d.patch"},
    {"name": "c17_search_keeps_untightened", "property": "C17", "file": "search.py",
     "old": "                        if untightened.tighten_bounds() and untightened.bounds().definitive():\n"
            "                            self._untightened.clear()\n",
     "new": "                        if untightened.tighten_bounds() and untightened.bounds().definitive():\n"},
    {"name": "c17_make_distinct_touching_is_distinct", "property": "C17", "file": "bounds.py",
     "old": "                    biggest_bound.upper_bound < second_biggest_bound.lower_bound or \\\n",
     "new": "                    biggest_bound.upper_bound <= second_biggest_bound.lower_bound or \\\n"},
    {"name": "c17_comparator_stops_on_overlap", "property": "C17", "file": "bounds.py",
     "old": "        ) and (\n                self.bounded.tighten_bounds() or other.bounded.tighten_bounds()\n        ):\n            pass\n        return self.bounded.bounds().dominates",
     "new": "        ) and (\n                self.bounded.tighten_bounds() and other.bounded.tighten_bounds()\n        ):\n            pass\n        return self.bounded.bounds().dominates"},
    {"name": "c17_search_prunes_equal_best", "property": "C17", "file": "search.py",
     "old": "        return best is not None and best.bounds().dominates(self.bounds())\n",
     "new": "        return best is not None and best.bounds().upper_bound <= self.bounds().upper_bound\n"},
    # ------------------------------------------------------------------ C20
    {"name": "c20_revert_json5_message", "property": "C20", "patch": "revert_6ecaac5.patch"},
    {"name": "c20_revert_json_unicode", "property": "C20", "patch": "revert_cac9b13.patch"},
    {"name": "c20_revert_plist_exceptions", "property": "C20", "patch": "revert_8d86a33.patch"},
    {"name": "c20_yaml_catches_scanner_only", "property": "C20", "file": "yaml.py",
     "old": "        except YAMLError as ye:\n", "new": "        except __import__('yaml').scanner.ScannerError as ye:\n"},
    {"name": "c20_second_file_error_exit_zero", "property": "C20", "file": "__main__.py",
     "old": "                            sys.stderr.write(to_tree)\n                            sys.stderr.write('\\n\\n')\n                            return 1\n",
     "new": "                            sys.stderr.write(to_tree)\n                            sys.stderr.write('\\n\\n')\n                            return 0\n"},
    {"name": "c20_xml_message_without_filename", "property": "C20", "file": "xml.py",
     "old": "            return f'Error parsing {os.path.basename(path)}: {pe.msg}'\n",
     "new": "            return f'Error parsing XML: {pe.msg}'\n"},
    {"name": "c20_error_to_stdout", "property": "C20", "file": "__main__.py",
     "old": "                            sys.stderr.write(from_tree)\n", "new": "                            print(from_tree)\n"},
]
