#!/usr/bin/env python3
"""Validates MANIFEST.json and every evidence file against the schemas under /root/.vp (run with python3-vt, which
has jsonschema):   python3-vt tools/validate.py"""
import glob
import json
import os
import sys

import jsonschema

VERIF = os.path.dirname(os.path.dirname(os.path.abspath(__file__)))
bad = 0


def check(path, schema_path):
    global bad
    try:
        jsonschema.validate(json.load(open(path)), json.load(open(schema_path)))
        print("ok     ", os.path.relpath(path, VERIF))
    except Exception as e:  # noqa
        bad += 1
        print("INVALID", os.path.relpath(path, VERIF), str(e).splitlines()[0][:200])


check(os.path.join(VERIF, "MANIFEST.json"), "/root/.vp/MANIFEST.schema.json")
for f in sorted(glob.glob(os.path.join(VERIF, "evidence", "*.json")) + glob.glob(os.path.join(VERIF, "evidence", "thorough", "*.json"))):
    check(f, "/root/.vp/EVIDENCE.schema.json")
man = json.load(open(os.path.join(VERIF, "MANIFEST.json")))
props = [json.loads(l)["id"] for l in open(os.path.join(VERIF, "properties.jsonl"))]
claimed = [c["property_id"] if "property_id" in c else c.get("id") for c in man.get("checks", man.get("properties", []))]
na = [x["property_id"] if isinstance(x, dict) and "property_id" in x else (x.get("id") if isinstance(x, dict) else x)
      for x in man.get("not_applicable", [])]
missing = [p for p in props if p not in claimed and p not in na]
print("claimed", claimed, "n/a", len(na), "unaccounted", missing)
sys.exit(1 if bad or missing else 0)
