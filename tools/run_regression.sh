#!/bin/bash
# Full regression of the machinery itself: specificity (refactorings must stay silent), sensitivity (mutants must be
# caught), every stored seeded change (must be caught), determinism.  Meant for `vp run --timeout 8h -- bash tools/run_regression.sh`.
# Sections can be named: `bash tools/run_regression.sh sensitivity seeded determinism`; `specificity:C04,C05` limits
# the refactoring variants to those checks.
cd "$(dirname "$0")/.." || exit 2
sections=${@:-specificity sensitivity seeded determinism}
for sec in $sections; do
  case $sec in
    specificity*) ids=$(echo "${sec#specificity}" | tr -d ':' | tr ',' ' ')
                  echo "=== specificity $ids $(date +%H:%M)"; ./check selftest specificity $ids;;
    sensitivity)  echo "=== sensitivity $(date +%H:%M)"; ./check selftest sensitivity;;
    seeded)       echo "=== seeded $(date +%H:%M)"
                  for d in seeded/*/; do s=$(basename $d); case $s in *dup*) continue;; esac; python3 tools/seeded_eval.py detect $s 2>&1 | tail -1; done;;
    determinism)  echo "=== determinism $(date +%H:%M)"; ./check selftest determinism;;
  esac
done
echo "ALLDONE $(date +%H:%M)"
