#!/bin/bash
# Full regression of the machinery itself: specificity (refactorings must stay silent), sensitivity (mutants must be
# caught), every stored seeded change (must be caught), determinism.  Meant for `vp run --timeout 8h -- bash tools/run_regression.sh`.
cd "$(dirname "$0")/.." || exit 2
echo "=== specificity $(date +%H:%M)"; ./check selftest specificity
echo "=== sensitivity $(date +%H:%M)"; ./check selftest sensitivity
echo "=== seeded $(date +%H:%M)"
for d in seeded/*/; do s=$(basename $d); case $s in *dup*) continue;; esac; python3 tools/seeded_eval.py detect $s 2>&1 | tail -1; done
echo "=== determinism $(date +%H:%M)"; ./check selftest determinism
echo "ALLDONE $(date +%H:%M)"
