#!/usr/bin/env python3
"""Systematic single-token mutation sweep over the files the claimed properties are anchored in.

For every sampled mutant (one operator flip / constant change / dropped negation on one line of a scratch copy of
/repo/graphtage):
  1. it must still import;
  2. the quick tiers of the checks mapped to that file are run against the scratch copy (early stop makes a kill cheap);
  3. only if no check flags it, the repository's own test suite is run against it: a mutant that the 66 tests kill is
     uninteresting, one that they let pass is a SURVIVOR - either behaviour-preserving or a gap in the checks.
Survivors are written to selftest/mutation_survivors.jsonl for manual triage (DESIGN 10.7).

    tools/mutation_sweep.py [--seed N] [--per-file K] [--budget-min M] [files...]
"""
import json
import os
import random
import re
import shutil
import subprocess
import sys
import tempfile
import time

VERIF = os.path.dirname(os.path.dirname(os.path.abspath(__file__)))
PY = "/venv/bin/python"

FILE_CHECKS = {
    "fibonacci.py": ["C16", "C17"],
    "search.py": ["C17", "C04"],
    "bounds.py": ["C17", "C04"],
    "levenshtein.py": ["C05", "C04"],
    "edits.py": ["C05", "C04"],
    "matching.py": ["C05", "C04"],
    "multiset.py": ["C05", "C04", "C07"],
    "sequences.py": ["C05", "C04"],
    "tree.py": ["C05", "C07", "C04"],
    "graphtage.py": ["C05", "C07", "C04"],
    "xml.py": ["C05", "C20"],
    "json.py": ["C20", "C07"],
    "yaml.py": ["C20", "C07"],
    "plist.py": ["C20", "C07"],
    "__main__.py": ["C20", "C07"],
    "printer.py": ["C07", "C05"],
    "progress.py": ["C07", "C05"],
    "utils.py": ["C16", "C07"],
}

OPERATORS = [
    (r"(?<![<>=!])<=(?!=)", "<"), (r"(?<![<>=!-])<(?![<=])", "<="), (r"(?<![<>=!])>=(?!=)", ">"),
    (r"(?<![<>=!-])>(?![>=])", ">="), (r"==", "!="), (r"!=", "=="),
    (r"\band\b", "or"), (r"\bor\b", "and"), (r"\bnot ", ""), (r"\bTrue\b", "False"), (r"\bFalse\b", "True"),
    (r"\bmin\(", "max("), (r"\bmax\(", "min("), (r"\+ 1\b", "- 1"), (r"- 1\b", "+ 1"), (r"\+= 1\b", "-= 1"),
    (r"-= 1\b", "+= 1"), (r"\bis not None\b", "is None"), (r"\bis None\b", "is not None"),
    (r"\bbreak\b", "continue"), (r"\bcontinue\b", "break"), (r"\.lower_bound\b", ".upper_bound"),
    (r"\.upper_bound\b", ".lower_bound"), (r"\bany\(", "all("), (r"\ball\(", "any("),
]


def code_lines(src):
    """Indices of lines that are code (not blank, comment, or inside a docstring)."""
    out = []
    in_doc = False
    delim = None
    for i, line in enumerate(src):
        st = line.strip()
        if in_doc:
            if delim in st:
                in_doc = False
            continue
        if st.startswith(('"""', "'''", 'r"""', 'f"""')):
            d = '"""' if '"""' in st else "'''"
            if st.count(d) < 2:
                in_doc, delim = True, d
            continue
        if not st or st.startswith("#") or st.startswith(("import ", "from ", "@", "class ", "def ")):
            continue
        if st.startswith(("log.", "raise NotImplementedError", "assert ")):
            continue
        out.append(i)
    return out


def mutants_of(path, rng, k):
    src = open(path).read().split("\n")
    cands = []
    for i in code_lines(src):
        line = src[i]
        code = line.split("  #")[0]
        for pat, rep in OPERATORS:
            for m in re.finditer(pat, code):
                # skip matches inside string literals (crude: odd number of quotes before the match)
                pre = code[:m.start()]
                if pre.count('"') % 2 or pre.count("'") % 2:
                    continue
                new = code[:m.start()] + rep + code[m.end():] + line[len(code):]
                cands.append((i, line, new, f"{pat} -> {rep}"))
    rng.shuffle(cands)
    return cands[:k]


def sh(cmd, cwd=None, env=None, timeout=3000):
    try:
        p = subprocess.run(cmd, cwd=cwd, env=env, capture_output=True, text=True, timeout=timeout)
        return p.returncode, p.stdout + p.stderr
    except subprocess.TimeoutExpired:
        return 124, "timeout"


def main(argv):
    seed, per_file, budget_min = 0, 12, 240
    files = []
    it = iter(argv[1:])
    for a in it:
        if a == "--seed":
            seed = int(next(it))
        elif a == "--per-file":
            per_file = int(next(it))
        elif a == "--budget-min":
            budget_min = int(next(it))
        else:
            files.append(a)
    files = files or list(FILE_CHECKS)
    rng = random.Random(seed)
    t0 = time.time()
    out_path = os.path.join(VERIF, "selftest", "mutation_sweep_results.jsonl")
    surv_path = os.path.join(VERIF, "selftest", "mutation_survivors.jsonl")
    plan = []
    for fn in files:
        for m in mutants_of(os.path.join("/repo/graphtage", fn), rng, per_file):
            plan.append((fn,) + m)
    rng.shuffle(plan)
    print(f"{len(plan)} mutants planned over {len(files)} files, seed {seed}", flush=True)
    stats = {"killed_by_check": 0, "killed_by_tests_only": 0, "survivor": 0, "broken_import": 0}
    for n, (fn, lineno, old, new, op) in enumerate(plan):
        if time.time() - t0 > budget_min * 60:
            print("budget exhausted", flush=True)
            break
        d = tempfile.mkdtemp(prefix="gsim-sweep-")
        rec = {"file": fn, "line": lineno + 1, "old": old.strip(), "new": new.strip(), "op": op}
        try:
            shutil.copytree("/repo/graphtage", os.path.join(d, "graphtage"))
            shutil.copytree("/repo/test", os.path.join(d, "test"))
            p = os.path.join(d, "graphtage", fn)
            src = open(p).read().split("\n")
            src[lineno] = new
            open(p, "w").write("\n".join(src))
            env = dict(os.environ, PYTHONPATH=d, PYTHONDONTWRITEBYTECODE="1")
            rc, out = sh([PY, "-c", "import graphtage, graphtage.__main__"], cwd=d, env=env, timeout=120)
            if rc != 0:
                rec["outcome"] = "broken_import"
                stats["broken_import"] += 1
                continue
            killed = None
            for c in FILE_CHECKS[fn]:
                env2 = dict(os.environ, GSIM_REPO=d, GSIM_NO_EVIDENCE="1", GSIM_NO_PROBE="1",
                            GSIM_REPLAY_DIR=os.path.join(d, "replays"))
                t1 = time.time()
                rc, out = sh([os.path.join(VERIF, "check"), c, "quick"], env=env2, timeout=1500)
                kinds = [ln.split("violation ")[1].split(";")[0] for ln in out.splitlines() if "] violation kind=" in ln]
                rec.setdefault("checks", {})[c] = {"rc": rc, "kinds": kinds[:2], "s": round(time.time() - t1)}
                if rc == 1 and "VIOLATION property=" in out:
                    killed = c
                    break
                if rc == 2:
                    rec.setdefault("harness", []).append(out[-800:])
            if killed:
                rec["outcome"] = "killed_by_check"
                rec["killed_by"] = killed
                stats["killed_by_check"] += 1
                continue
            rc, out = sh([PY, "-m", "pytest", "-q", "-x", "-p", "no:cacheprovider", "--timeout=900"], cwd=d, env=env,
                         timeout=2400)
            tail = out.strip().splitlines()[-1] if out.strip() else ""
            rec["tests"] = tail
            if rc == 0:
                rec["outcome"] = "survivor"
                stats["survivor"] += 1
                with open(surv_path, "a") as f:
                    f.write(json.dumps(rec) + "\n")
            else:
                rec["outcome"] = "killed_by_tests_only"
                stats["killed_by_tests_only"] += 1
        finally:
            shutil.rmtree(d, ignore_errors=True)
            with open(out_path, "a") as f:
                f.write(json.dumps(rec) + "\n")
            print(f"[{n + 1}/{len(plan)}] {fn}:{lineno + 1} {op:<28} {rec.get('outcome')} "
                  f"{rec.get('killed_by', '')} {rec.get('tests', '')} | {rec['new'][:90]}", flush=True)
    print("SUMMARY", json.dumps(stats), flush=True)
    return 0


if __name__ == "__main__":
    sys.exit(main(sys.argv))
