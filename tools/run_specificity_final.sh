#!/bin/bash
# Targeted specificity regression after the fourth review round: `C04` (the wrapper logic changed), or `rest`: the
# newest variants of C07 and C05 first, then the older ones.
cd "$(dirname "$0")/.." || exit 2
case "${1:-all}" in
  C04|all) echo "=== C04 all $(date +%H:%M)"; ./check selftest specificity C04;;
esac
case "${1:-all}" in
  rest|all)
    echo "=== C07 r3 r4 $(date +%H:%M)"; ./check selftest specificity C07 r3 r4
    echo "=== C05 r3 r4 $(date +%H:%M)"; ./check selftest specificity C05 r3 r4
    echo "=== C07 older $(date +%H:%M)"; ./check selftest specificity C07 C07_v C07_r2
    echo "=== C05 older $(date +%H:%M)"; ./check selftest specificity C05 C05_v C05_r2;;
esac
echo "ALLDONE $(date +%H:%M)"
