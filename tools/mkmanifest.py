#!/usr/bin/env python3
"""Regenerates /verif/MANIFEST.json from the table below (run after adding or changing a check)."""
import json
import os

HERE = os.path.dirname(os.path.dirname(os.path.abspath(__file__)))

NA = {
    "C01": "Conservation/order of the edit script is a pure function of (two trees, options); the only history-dependence of the script is C05, which is claimed. What remains is input sampling plus a script checker, not simulation.",
    "C02": "'Zero cost / exit 0 iff equal' is a predicate on two inputs; no schedule, clock, fault or history in it.",
    "C03": "Sum-of-parts is an algebraic identity of the converged state per input; its history-dependent part (a list edit freezing a total that depends on how often it was stepped) is decided under C05.",
    "C06": "Rendering is a pure function of the finished diff and printer flags; no stream fault or history in the property.",
    "C08": "Metamorphic relation over input permutations; no nondeterminism source involved (hash-order effects are C07).",
    "C09": "Equality across file formats is a function of the data and the pair of loaders; no fault, clock or ordering.",
    "C10": "Option semantics constrain the script per input x option; pure.",
    "C11": "LCS-minimality of a string edit is a function of two strings (the quantifier asks for bounded enumeration, not schedule search).",
    "C12": "Print->parse round trip is a function of one document on a fault-free disk.",
    "C13": "A finite cross product of configurations on fault-free inputs; enumeration, not simulation.",
    "C14": "CLI/library agreement and option aliases are configuration equalities on fault-free inputs.",
    "C15": "min_weight_bipartite_matching is a stateless wrapper around scipy; pure function of a weight table.",
    "C18": "Object-graph conversion (sharing, cycles, termination on a given cyclic input) is a pure function of the object graph and options.",
    "C19": "Expression evaluation is a pure interpreter over a program and an environment; quantifier is over programs (grammar fuzzing), no schedule or fault.",
}

CHECKS = {
    "C07": dict(
        category="exploration", design_ref="DESIGN.md section 4, C07",
        text="One explicit in-process history of CLI-style calls (every item twice at seeded positions, interleaved "
             "library diff/print calls with their own colour printers, quiet flips, clock profiles, optional soak of "
             "hundreds of colour calls) is executed by real child interpreters under different PYTHONHASHSEED, ASLR "
             "off/on and heap shifts; exit status, exception class and stdout bytes of every execution of an item must "
             "agree across children and positions. Purity: tree fingerprints before/after comparisons that are "
             "optionally cancelled by KeyboardInterrupt at the n-th clock read / stream write / engine step or at an "
             "arbitrary function entry inside graphtage, and the next diff must render identically. Every child runs the "
             "same calls in its own order; items include type twins (1 / 1.0 / true), renamed-key dictionaries and "
             "stdin inputs.",
        note="Trusted: stderr excluded; identical failures everywhere are not C07's subject; the harness never resets "
             "graphtage-mutated state inside a history; third-party native code is a black box.",
        technique="deterministic simulation: controlled hash seed / address layout / in-process call history in "
                  "child interpreters, cancellation injection, byte-equality oracle"),
    "C04": dict(
        category="exploration", design_ref="DESIGN.md section 4, C04",
        text="Every tighten_bounds() of every Bounded class is wrapped from outside; the engine is driven by the seeded "
             "scheduler (public edit-API calls in orders diff() never produces, suspended generators, quiet flips) and "
             "the monitor's own bounds() reads are scheduled events with per-run probability. Per object: intervals "
             "never widen, True means strictly shrunk, False means single value, the finally reached value lies in "
             "every interval shown, and the root converges within its initial width once the schedule stops. Matcher "
             "and search are additionally run over simulated slow items. Document families: JSON-like, YAML-style, "
             "XML, CSV, plist-wrapped, Python object graphs (pydiff); biased shapes incl. renamed-key dictionaries and "
             "costs above 2**16.",
        note="Trusted: the monitor; 'False iff definitive before the call' is not demanded; PossibleEdits/search over "
             "real edits is outside the population; exceptions are C05's subject (aborted_other).",
        technique="deterministic simulation: seeded engine-call schedules with scheduled observations, per-object "
                  "interval invariants and bounded liveness"),
    "C05": dict(
        category="exploration", design_ref="DESIGN.md section 4, C05",
        text="For each generated document pair a reference run (real diff(), default printer) fixes cost, canonical "
             "script and annotations; 2-4 simulated runs with seeded schedules of public edit-API calls (incl. "
             "suspended and resumed edits() iterators, quiet flips), printer configurations (quiet x colour x tty) and "
             "clock profiles, plus macro schedules (quiet diff(), get_all_edit_contexts, edited_cost, exhaustion "
             "without bounds reads, the real main() under every status flag), must end with the same cost and script, "
             "must not raise, must list the same sub-edits after a suspended/resumed or a 'complete' listing, must answer "
             "has_non_zero_cost() consistently with the final cost and must render (plain) like the reference.",
        note="Trusted: canonical serialisation as the meaning of 'same script'; hygiene between independent runs that "
             "share a worker process; pairs stay within one document family.",
        technique="deterministic simulation: seeded interleavings of the public edit API x printer/clock "
                  "configurations vs. a reference run"),
    "C16": dict(
        category="exploration", design_ref="DESIGN.md section 4, C16",
        text="Seeded operation histories (plus every short suffix after three consolidated prefixes) drive the real "
             "Fibonacci heaps in lock-step with a dict model; size, peek and pop are compared after every operation "
             "and the heap is drained at the end. Sampling, not proof: a clean batch is evidence that no history of "
             "the generated shapes breaks the queue.",
        note="Trusted: the dict/min model; single caller; out-of-domain calls (empty pop/peek, key increase, removed "
             "nodes) are not generated. No fault kind exists for this component.",
        technique="deterministic simulation: seeded operation histories vs. lock-step reference model, ddmin replay"),
    "C17": dict(
        category="exploration", design_ref="DESIGN.md section 4, C17",
        text="The bounded items are simulator-owned slow nodes whose per-call tightening (which end, how far, stalls, "
             "crawls, jumps) is drawn from the schedule stream; the real search, sort, min_bounded and make_distinct "
             "run over them and are compared with brute force over the final values; termination by watchdog.",
        note="Trusted: SimItem follows the Bounded protocol; brute force over finals; intervaltree uninstrumented. "
             "Initial bounds given to the search are sound.",
        technique="deterministic simulation: seeded per-call tightening schedules of simulated slow items, "
                  "brute-force oracle"),
    "C20": dict(
        category="fault_enumeration", design_ref="DESIGN.md section 4, C20",
        text="Every generated valid document of each text format is stored on the simulated disk and corrupted by a "
             "torn write at every byte offset, plus lost tail blocks, zero fill, bit flips, dropped/duplicated "
             "delimiters, unbalanced brackets/tags and compositions; files that every independent parser rejects go "
             "through the real main() in-process (simulated stdout/stderr/clock) as first or second file under every "
             "type spelling and status setting; a seeded sample is re-run as a real `python -m graphtage` subprocess, "
             "which must agree and is judged by the same oracle.",
        note="Trusted: the independent parsers (stdlib json, json5, PyYAML pure+C, pyexpat, plistlib + structural "
             "validator) as the definition of 'syntactically invalid'; HTML validity = well-formed XHTML; I/O errors "
             "are outside the property.",
        technique="deterministic simulation with fault injection on stored input (torn writes enumerated at every "
                  "offset), in-process CLI with simulated streams and clock"),
}


def main():
    checks = []
    for pid in sorted(CHECKS):
        c = CHECKS[pid]
        checks.append({
            "property_id": pid,
            "quick_cmd": f"./check {pid} quick",
            "thorough_cmd": f"./check {pid} thorough",
            "evidence_file": f"/verif/evidence/{pid}.json",
            "replay_cmd_template": "./check replay {path}",
            "engine": "gsim",
            "level_claimed": {"category": c["category"], "text": c["text"], "design_ref": c["design_ref"]},
            "level_note": c["note"],
            "technique": c["technique"],
        })
    pending = {p: "claimed in DESIGN.md; its simulation check is being built in this session and is registered "
                  "here as soon as it runs clean" for p in ("C04", "C05", "C07", "C20") if p not in CHECKS}
    na = [{"property_id": p, "reason": r} for p, r in sorted({**NA, **pending}.items())]
    m = {
        "version": 1,
        "setup_cmd": "/venv/bin/python -c \"import graphtage, tqdm, scipy, yaml, json5, intervaltree, colorama; "
                     "print('gsim: interpreter and graphtage dependencies present')\"",
        "hooks": {
            "guard": "GRAPHTAGE_VERIF",
            "enable": "unused: every seam is reached from outside (module globals, sys.std*, tqdm.std.time, "
                      "PYTHONHASHSEED, files); no source hook exists in /repo",
            "baseline_off_cmd": "cd /repo && /venv/bin/python -m pytest -ra -q -p no:cacheprovider --timeout=900 "
                                "--continue-on-collection-errors",
            "source_commits": [],
            "add_only": True,
        },
        "engines": [{"name": "gsim", "path": "/verif/gsim", "serves_properties": sorted(CHECKS),
                     "kind_free_text": "deterministic simulator written for this repository: seeded schedules, "
                                       "simulated clock/streams/disk/identity, fault injection, ddmin, replay files"}],
        "checks": checks,
        "not_applicable": na,
        "notes": "See DESIGN.md. Launcher ./check <ID> quick|thorough honours VERIF_SEED, VERIF_TIER, "
                 "VERIF_BUDGET_S, VERIF_WORKERS. Findings: known_findings.txt.",
    }
    with open(os.path.join(HERE, "MANIFEST.json"), "w") as f:
        json.dump(m, f, indent=1)
        f.write("\n")


if __name__ == "__main__":
    main()
