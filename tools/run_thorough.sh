#!/bin/bash
# Runs every thorough tier once, sequentially (each is wall-capped at ~25-30 min on 16 cores), and keeps a copy of
# each evidence file under evidence/thorough/.  Meant for `vp run --timeout 5h -- bash tools/run_thorough.sh`.
cd "$(dirname "$0")/.." || exit 2
mkdir -p evidence/thorough
for c in ${@:-C16 C17 C04 C05 C20 C07}; do
  echo "=== $c thorough $(date +%H:%M:%S)"
  ./check $c thorough 2>&1 | grep -E "^\[C..\]|VIOLATION|HARNESS|KNOWN" | cut -c1-600
  echo "rc=${PIPESTATUS[0]} $(date +%H:%M:%S)"
  cp evidence/$c.json evidence/thorough/$c.json
done
echo ALLDONE
