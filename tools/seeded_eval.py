#!/usr/bin/env python3
"""Confirms and evaluates one independently written breaking change.

    tools/seeded_eval.py verify <worktree> <seeded-id> <property>   # tests pass with change, demo fails with / passes without;
                                                                    # on success copies patch/demo/meta to /verif/seeded/<id>/
    tools/seeded_eval.py detect <seeded-id> [check ids...]          # applies seeded/<id>/patch.diff to a scratch copy of the
                                                                    # current /repo tree and runs the quick checks against it

Nothing is ever committed to /repo; scratch copies live under /tmp and are removed.
"""
import json
import os
import shutil
import subprocess
import sys
import tempfile
import time

VERIF = os.path.dirname(os.path.dirname(os.path.abspath(__file__)))
PY = "/venv/bin/python"


def sh(cmd, cwd=None, env=None, timeout=3000):
    p = subprocess.run(cmd, cwd=cwd, env=env, capture_output=True, text=True, timeout=timeout, shell=isinstance(cmd, str))
    return p.returncode, p.stdout + p.stderr


def verify(wt, sid, prop):
    sd = os.path.join(wt, "_seeded")
    for f in ("patch.diff", "demo.py", "meta.json"):
        if not os.path.exists(os.path.join(sd, f)):
            print(f"[{sid}] missing {f}")
            return 1
    env = dict(os.environ, PYTHONPATH=wt, PYTHONDONTWRITEBYTECODE="1")
    rc, out = sh(["git", "diff", "--stat", "--", "graphtage"], cwd=wt)
    print(f"[{sid}] change applied in worktree:\n{out.strip()}")
    t0 = time.time()
    rc_t, out_t = sh([PY, "-m", "pytest", "-q", "-p", "no:cacheprovider", "--timeout=900"], cwd=wt, env=env)
    tail = out_t.strip().splitlines()[-1] if out_t.strip() else ""
    tests_ok = rc_t == 0 and "66 passed" in tail
    print(f"[{sid}] tests with change: rc={rc_t} '{tail}' ({time.time() - t0:.0f}s)")
    rc_d1, out_d1 = sh([PY, "_seeded/demo.py"], cwd=wt, env=env, timeout=900)
    print(f"[{sid}] demo with change: rc={rc_d1}")
    sh("git diff -- graphtage > /tmp/.seeded_%s.diff && git checkout -- graphtage" % sid, cwd=wt)
    rc_d0, out_d0 = sh([PY, "_seeded/demo.py"], cwd=wt, env=env, timeout=900)
    print(f"[{sid}] demo without change: rc={rc_d0}")
    sh("git apply /tmp/.seeded_%s.diff && rm -f /tmp/.seeded_%s.diff" % (sid, sid), cwd=wt)
    ok = tests_ok and rc_d1 == 1 and rc_d0 == 0
    if ok:
        dst = os.path.join(VERIF, "seeded", sid)
        os.makedirs(dst, exist_ok=True)
        for f in ("patch.diff", "demo.py"):
            shutil.copy(os.path.join(sd, f), os.path.join(dst, f))
        with open(os.path.join(sd, "meta.json")) as f:
            try:
                meta = json.load(f)
            except Exception:
                meta = {"raw": open(os.path.join(sd, "meta.json")).read()}
        meta.update({"property": prop, "confirmed_by_me": {
            "tests_with_change": tail, "demo_with_change_rc": rc_d1, "demo_without_change_rc": rc_d0,
            "commands": [f"cd {wt} && PYTHONPATH={wt} {PY} -m pytest -q -p no:cacheprovider --timeout=900",
                         f"cd {wt} && PYTHONPATH={wt} {PY} _seeded/demo.py   (with the change: exit 1)",
                         f"git checkout -- graphtage; same demo (exit 0); git apply patch"],
            "demo_output_with_change_tail": out_d1.strip()[-600:]}})
        with open(os.path.join(dst, "meta.json"), "w") as f:
            json.dump(meta, f, indent=1)
    print(f"[{sid}] {'CONFIRMED -> /verif/seeded/' + sid if ok else 'NOT CONFIRMED'}")
    return 0 if ok else 1


def detect(sid, checks):
    dst = os.path.join(VERIF, "seeded", sid)
    meta = json.load(open(os.path.join(dst, "meta.json")))
    checks = checks or [meta["property"]]
    d = tempfile.mkdtemp(prefix="gsim-seeded-")
    try:
        shutil.copytree("/repo/graphtage", os.path.join(d, "graphtage"))
        rc, out = sh(["patch", "-p1", "-s", "-i", os.path.join(dst, "patch.diff")], cwd=d)
        if rc != 0:
            print(f"[{sid}] patch does not apply to the current tree: {out}")
            return 2
        results = {}
        for c in checks:
            env = dict(os.environ, GSIM_REPO=d, GSIM_NO_EVIDENCE="1", GSIM_REPLAY_DIR=os.path.join(d, "replays"))
            t0 = time.time()
            rc, out = sh([os.path.join(VERIF, "check"), c, "quick"], env=env, timeout=3000)
            kinds = [ln.split("violation ")[1].split(";")[0] for ln in out.splitlines() if "] violation kind=" in ln]
            det = rc == 1 and "VIOLATION property=" in out
            results[c] = {"detected": det, "rc": rc, "kinds": kinds[:3], "wall_s": round(time.time() - t0, 1)}
            print(f"[{sid}] {c} quick: {'DETECTED' if det else 'missed'} rc={rc} {kinds[:3]} {time.time() - t0:.0f}s")
            if rc == 2:
                print(out[-1500:])
        meta.setdefault("detection", {}).update(results)
        with open(os.path.join(dst, "meta.json"), "w") as f:
            json.dump(meta, f, indent=1)
    finally:
        shutil.rmtree(d, ignore_errors=True)
    return 0


if __name__ == "__main__":
    if sys.argv[1] == "verify":
        sys.exit(verify(sys.argv[2], sys.argv[3], sys.argv[4]))
    sys.exit(detect(sys.argv[2], sys.argv[3:]))
