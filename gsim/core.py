"""gsim core: seeds, PRNG streams, event log, classification.

One integer (VERIF_SEED) decides everything.  Every run r of check P gets
seed(P, r) = sha256(root, P, r); from it independent PRNG streams are derived by
name, so that shrinking one dimension never shifts another.  Logging never draws
from a PRNG and never reads a clock.
"""
import hashlib
import json
import os
import random
import signal
import sys

REPO = os.environ.get("GSIM_REPO", "/repo")
VERIF = os.path.dirname(os.path.dirname(os.path.abspath(__file__)))


def use_repo():
    """Put the repository under test in front of sys.path (working tree, no build step: pure Python) and install
    the simulator's seams *before* graphtage is imported, so that the process-wide DEFAULT_PRINTER graphtage creates
    at import time is bound to the simulated stdout exactly as it would be bound to the real one."""
    if sys.path[0] != REPO:
        try:
            sys.path.remove(REPO)
        except ValueError:
            pass
        sys.path.insert(0, REPO)
    from .seams import SEAMS
    SEAMS.install()


def out(*a):
    """Harness output: always the real stdout, never a simulated stream."""
    print(*a, file=sys.__stdout__, flush=True)


def h64(*parts) -> int:
    m = hashlib.sha256()
    for p in parts:
        m.update(repr(p).encode())
        m.update(b"\0")
    return int.from_bytes(m.digest()[:8], "big")


def run_seed(root: int, prop: str, run: int) -> int:
    return h64("gsim", root, prop, run)


class Streams:
    """Independent named PRNG streams derived from one run seed."""

    def __init__(self, seed: int):
        self.seed = seed
        self._s = {}

    def __getitem__(self, name: str) -> random.Random:
        r = self._s.get(name)
        if r is None:
            r = self._s[name] = random.Random(h64("stream", self.seed, name))
        return r


class EventLog:
    """Append-only log; its digest is the run's fingerprint.  Keeps a bounded text tail for reports."""

    def __init__(self, seed=None, keep=400):
        self._m = hashlib.sha256()
        self.n = 0
        self.keep = keep
        self.tail = []
        if seed is not None:
            self.add("seed", seed)

    def add(self, *parts):
        self.n += 1
        s = " ".join(str(p) for p in parts)
        self._m.update(s.encode("utf-8", "backslashreplace"))
        self._m.update(b"\n")
        if len(self.tail) < self.keep:
            self.tail.append(s)
        return self.n

    def digest(self) -> str:
        return self._m.hexdigest()[:24]


def digest_of(obj) -> str:
    return hashlib.sha256(json.dumps(obj, sort_keys=True, default=repr).encode()).hexdigest()[:16]


def repo_digest() -> str:
    m = hashlib.sha256()
    d = os.path.join(REPO, "graphtage")
    for fn in sorted(os.listdir(d)):
        if fn.endswith(".py"):
            m.update(fn.encode())
            with open(os.path.join(d, fn), "rb") as f:
                m.update(f.read())
    return m.hexdigest()[:16]


class Violation(Exception):
    """An oracle of the property failed."""

    def __init__(self, kind: str, site: str, detail: str = ""):
        super().__init__(f"{kind} @ {site}: {detail}")
        self.kind = kind
        self.site = site
        self.detail = detail

    def as_dict(self):
        return {"kind": self.kind, "site": self.site, "detail": self.detail[:2000]}


class OutOfDomain(Exception):
    """The generated case left the property's domain (counted, never reported)."""


class RunTimeout(BaseException):
    """Raised by the per-run watchdog (SIGALRM).  BaseException so that no `except Exception` swallows it."""


def _on_alarm(signum, frame):
    raise RunTimeout()


class Watchdog:
    """Per-run wall-clock deadline.  Step caps bound loops we own; this bounds loops we do not own."""

    def __init__(self, seconds: float):
        self.seconds = seconds

    def __enter__(self):
        self._old = signal.signal(signal.SIGALRM, _on_alarm)
        signal.setitimer(signal.ITIMER_REAL, self.seconds)
        return self

    def __exit__(self, *a):
        signal.setitimer(signal.ITIMER_REAL, 0)
        signal.signal(signal.SIGALRM, self._old)
        return False


INSTRUMENTATION_FRAMES = {"probe", "around", "_around", "observe", "note", "decide", "tighten_bounds_monitor"}


def graphtage_site(exc: BaseException) -> str:
    """Innermost graphtage frame of an exception: 'ExcType@file.py:function' (no line numbers: stable under edits)."""
    import traceback
    tb = traceback.extract_tb(exc.__traceback__)
    site = None
    for fr in tb:
        fn = fr.filename.replace("\\", "/")
        if "/graphtage/" in fn and "/gsim/" not in fn:
            site = f"{os.path.basename(fn)}:{fr.name}"
    if tb:
        last = tb[-1].filename.replace("\\", "/")
        if "/gsim/" in last and tb[-1].name in INSTRUMENTATION_FRAMES:
            # raised by the harness' own INSTRUMENTATION (a reach-probe or monitor wrapper that no longer fits a
            # refactored helper), even if graphtage frames are on the stack: never a verdict about graphtage.
            # An exception raised inside a *simulated environment object* that graphtage called back (an item's
            # comparison, a stream's write) is graphtage's doing and keeps its graphtage site.
            site = None
    return f"{type(exc).__name__}@{site or 'outside-graphtage'}"


def count_calls(cls, name, counter, key, depth_key=None):
    """Reach probe: counts calls of a (private) method from outside WITHOUT assuming its signature, its kind or even
    its existence.  Static / class methods, properties and missing names are left alone (the probe then stays at zero,
    which the evidence reports); the wrapper passes every argument through untouched."""
    import types
    raw = cls.__dict__.get(name)
    if not isinstance(raw, types.FunctionType) or getattr(raw, "_gsim_probe", False):
        return False

    def probe(*args, **kwargs):
        counter[key] = counter.get(key, 0) + 1
        if depth_key is None:
            return raw(*args, **kwargs)
        counter["_depth"] = counter.get("_depth", 0) + 1
        if counter["_depth"] > counter.get(depth_key, 0):
            counter[depth_key] = counter["_depth"]
        try:
            return raw(*args, **kwargs)
        finally:
            counter["_depth"] -= 1
    probe._gsim_probe = True
    probe.__name__ = getattr(raw, "__name__", name)
    probe.__doc__ = getattr(raw, "__doc__", None)
    try:
        setattr(cls, name, probe)
    except (AttributeError, TypeError):
        return False
    return True


def short_tb(exc: BaseException, limit=6) -> str:
    import traceback
    return "".join(traceback.format_exception(type(exc), exc, exc.__traceback__)[-limit:])
