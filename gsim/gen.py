"""Workload generators: JSON-like values, XML element trees, mutations, per-format serialisers.

Small alphabets and small integer domains on purpose: ties and duplicates are where tie rules, make_distinct and
the matcher's index maps matter.  Everything is drawn from the PRNG handed in; nothing else is consulted.
"""
import json
import plistlib
import random
import xml.etree.ElementTree as ET

STR_POOL = ["", "a", "b", "ab", "ba", "abc", "abd", "xbc", "aaa", "hello", "help", "é", "日本", "a b", "q\"t", "x\\y",
            "line\nbreak", "0", "true", "null",
            # multi-line text (block literals in YAML) and the line-boundary characters other than \n that
            # str.splitlines() knows: unusual, legal, and exactly where line-oriented buffering goes wrong
            "line\nbroken", "l1\nl2\nl3", "a\u2028b", "n\u0085l", "f\x0cf", "v\x0bt"]
KEY_POOL = ["a", "b", "c", "k", "id", "name", "é", "x y"]
TAG_POOL = ["a", "b", "c", "item", "div", "p"]


def gen_scalar(r, profile="json"):
    c = r.random()
    if c < 0.30:
        return r.choice([0, 1, 2, 3, 5, 7, 10, 12, 100, -1])
    if c < 0.60:
        return r.choice(STR_POOL)
    if c < 0.65:
        # a longer string over a tiny alphabet: many equally good alignments, slow convergence of string edits
        return "".join(r.choice("abz") for _ in range(r.choice([6, 9, 14, 22])))
    if c < 0.75:
        return r.choice([True, False])
    if c < 0.83:
        return r.choice([0.5, 1.5, 2.25, -3.0])
    if c < 0.90 and profile != "plist":
        return None
    return r.choice(["a", "b", 1, 2])


def gen_value(r, depth=3, profile="json", width=4):
    """A JSON-like value.  profile 'plist' avoids None; 'yaml' is the same as json."""
    if depth <= 0 or r.random() < 0.25:
        return gen_scalar(r, profile)
    c = r.random()
    n = r.choice([0, 1, 2, 2, 3, 3, width])
    if c < 0.55:
        return [gen_value(r, depth - 1, profile, width) for _ in range(n)]
    d = {}
    for _ in range(n):
        d[r.choice(KEY_POOL)] = gen_value(r, depth - 1, profile, width)
    return d


def gen_renamed_dicts(r):
    """Two mappings in which (nearly) all keys are renamed, with values that mix very short and long, mostly
    dissimilar strings: the weighted bipartite matcher (not key auto-matching) has to pair them, and the edit-distance
    ranges of the candidate pairs separate long before they are definitive."""
    def s(n, alpha):
        return "".join(r.choice(alpha) for _ in range(n))
    n = r.choice([2, 3, 3, 4])
    ka = r.sample(["a", "ab", "aaa", "k", "id", "name", "x y"], n)
    kb = r.sample(["bc", "bac", "baa", "q", "key", "title", "z"], r.choice([n, n, max(1, n - 1), n + 1]))
    lens = [1, 1, 2, 3, 5, 7, 11, 17, 22]

    def val():
        if r.random() < 0.3:
            return [r.randrange(6) for _ in range(r.choice([2, 3, 3, 5]))]
        return s(r.choice(lens), r.choice(["abcd", "abc", "ab", "xyzw"]))
    a = {k: val() for k in ka}
    b = {}
    for k in kb:
        if a and r.random() < 0.4:
            src = r.choice(list(a.values()))
            if isinstance(src, list):
                b[k] = list(src) if r.random() < 0.3 else src[:max(1, len(src) // 2)] + [r.randrange(6)]
            else:
                b[k] = src if r.random() < 0.3 else src[:max(1, len(src) // 2)] + s(r.choice([0, 1, 5]), "abz")
        else:
            b[k] = val()
    if r.random() < 0.3:
        return [a, 1], [b, 1]
    return a, b


def gen_config_pair(r):
    """A configuration-like mapping with a MULTI-LINE string (a YAML block literal) and nested single-line strings;
    the second document changes a line of the block and/or a nested single-line string."""
    lines = [r.choice(["echo a", "make", "run --x", "é", "exit 0"]) for _ in range(r.choice([2, 3, 4]))]
    a = {"name": r.choice(["svc", "web", "db"]), "script": "\n".join(lines),
         "limits": {"mem": r.choice([512, 1024]), "tier": r.choice(["gold", "silver"])},
         "hosts": [r.choice(["alpha", "beta"]), r.choice(["gamma", "delta"])]}
    b = json.loads(json.dumps(a))
    what = r.choice(["block", "nested", "both", "both", "block+list"])
    if "block" in what or what == "both":
        ls = list(lines)
        ls[r.randrange(len(ls))] = r.choice(["echo b", "make all", "exit 1"])
        if r.random() < 0.3:
            ls.append("done")
        b["script"] = "\n".join(ls)
    if what in ("nested", "both"):
        b["limits"]["tier"] = r.choice(["bronze", "golden", "silvern"])
    if "list" in what:
        b["hosts"][0] = b["hosts"][0] + "2"
    if r.random() < 0.3:
        return [a, "x"], [b, "x"]
    return a, b


def type_twin(r, v):
    """The same document with scalars replaced by equal-but-differently-typed values (1 <-> 1.0 <-> true,
    0 <-> 0.0 <-> false, 100 <-> 100.0): legal, unusual, and equal under == and hash()."""
    if isinstance(v, list):
        return [type_twin(r, x) for x in v]
    if isinstance(v, dict):
        return {k: type_twin(r, x) for k, x in v.items()}
    if isinstance(v, bool):
        return (1 if v else 0) if r.random() < 0.6 else (1.0 if v else 0.0)
    if isinstance(v, int) and r.random() < 0.7:
        if v in (0, 1) and r.random() < 0.5:
            return bool(v)
        return float(v)
    if isinstance(v, float) and v == int(v) and r.random() < 0.7:
        return int(v)
    return v


def gen_container(r, depth=3, profile="json", width=4):
    for _ in range(20):
        v = gen_value(r, depth, profile, width)
        if isinstance(v, (list, dict)) and v:
            return v
    return [1, [2, "a"], {"a": 1}]


def mutate(r, v, profile="json", intensity=2):
    """A seeded mutation of a value: insert / delete / replace / reorder / scalar edit / subtree copy."""
    v = json.loads(json.dumps(v))  # deep copy of JSON-like data
    for _ in range(r.randint(1, intensity)):
        v = _mutate_once(r, v, profile)
    return v


def _paths(v, p=()):
    yield p
    if isinstance(v, list):
        for i, x in enumerate(v):
            yield from _paths(x, p + (i,))
    elif isinstance(v, dict):
        for k, x in v.items():
            yield from _paths(x, p + (k,))


def _get(v, p):
    for k in p:
        v = v[k]
    return v


def _set(v, p, x):
    if not p:
        return x
    _get(v, p[:-1])[p[-1]] = x
    return v


def _mutate_once(r, v, profile):
    ps = list(_paths(v))
    p = r.choice(ps)
    tgt = _get(v, p)
    c = r.random()
    if isinstance(tgt, list):
        if c < 0.3:
            tgt.insert(r.randint(0, len(tgt)), gen_value(r, 1, profile))
        elif c < 0.55 and tgt:
            del tgt[r.randrange(len(tgt))]
        elif c < 0.7 and len(tgt) > 1:
            i, j = r.sample(range(len(tgt)), 2)
            tgt[i], tgt[j] = tgt[j], tgt[i]
        elif c < 0.85 and tgt:
            tgt.append(json.loads(json.dumps(r.choice(tgt))))
        else:
            return _set(v, p, gen_value(r, 1, profile))
        return v
    if isinstance(tgt, dict):
        if c < 0.35:
            tgt[r.choice(KEY_POOL)] = gen_value(r, 1, profile)
        elif c < 0.6 and tgt:
            del tgt[r.choice(list(tgt))]
        elif c < 0.8 and tgt:
            k = r.choice(list(tgt))
            nk = r.choice(KEY_POOL)
            if nk not in tgt:
                tgt[nk] = tgt.pop(k)
        else:
            return _set(v, p, gen_value(r, 1, profile))
        return v
    # scalar
    if isinstance(tgt, str) and c < 0.6:
        s = tgt
        i = r.randint(0, len(s))
        op = r.random()
        if op < 0.4:
            s = s[:i] + r.choice("abxé" if r.random() < 0.9 else "\n\u2028") + s[i:]
        elif op < 0.7 and s:
            j = r.randrange(len(s))
            s = s[:j] + s[j + 1:]
        elif s:
            j = r.randrange(len(s))
            s = s[:j] + r.choice("abx") + s[j + 1:]
        return _set(v, p, s)
    if isinstance(tgt, bool):
        return _set(v, p, not tgt)
    if isinstance(tgt, int) and c < 0.6:
        return _set(v, p, tgt + r.choice([-1, 1, 10]))
    return _set(v, p, gen_scalar(r, profile))


# ------------------------------------------------------------------------------------------------------ XML

def gen_xml(r, depth=3, html=False):
    """Returns an XML spec: [tag, attrib dict, text or None, children]."""
    tag = r.choice(["html", "body", "div", "p", "span"] if html else TAG_POOL)
    attrib = {}
    for _ in range(r.choice([0, 0, 1, 2])):
        attrib[r.choice(["id", "k", "class", "x"])] = r.choice(["", "a", "b", "ab", "1", "é"])
    text = r.choice([None, None, "a", "ab", "hello", "x < y", "é", " ", "x\u2028y", "u\u0085v", "two\nlines"])
    kids = []
    if depth > 0:
        for _ in range(r.choice([0, 1, 2, 2, 3])):
            kids.append(gen_xml(r, depth - 1, html))
    return [tag, attrib, text, kids]


def mutate_xml(r, spec):
    spec = json.loads(json.dumps(spec))
    nodes = []

    def walk(n):
        nodes.append(n)
        for k in n[3]:
            walk(k)
    walk(spec)
    for _ in range(r.randint(1, 2)):
        n = r.choice(nodes)
        c = r.random()
        if c < 0.2:
            n[0] = r.choice(TAG_POOL)
        elif c < 0.4:
            n[2] = r.choice([None, "a", "abc", "hello!", "é"])
        elif c < 0.6:
            n[1][r.choice(["id", "k", "z"])] = r.choice(["a", "b", "zz"])
        elif c < 0.7 and n[1]:
            del n[1][r.choice(list(n[1]))]
        elif c < 0.85:
            n[3].insert(r.randint(0, len(n[3])), gen_xml(r, 0))
        elif n[3]:
            del n[3][r.randrange(len(n[3]))]
    # text that differs only in surrounding whitespace (XMLElement equality ignores it, the text edit does not) on an
    # element that differs elsewhere too.  Decided by a generator of its own, seeded from the result, so that the
    # caller's stream - and with it every earlier case - is unchanged apart from this padding.
    r2 = random.Random(json.dumps(spec, sort_keys=True))
    if r2.random() < 0.2:
        cands = [n for n in nodes if isinstance(n[2], str) and n[2].strip()]
        if cands:
            n = r2.choice(cands)
            n[2] = r2.choice(["  ", "\n    ", " "]) + n[2] + r2.choice(["  ", "\n  ", ""])
            if r2.random() < 0.7:
                n[1]["pad"] = r2.choice(["1", "yes"])
    return spec


def xml_element(spec):
    tag, attrib, text, kids = spec
    e = ET.Element(tag, dict(attrib))
    e.text = text
    for k in kids:
        e.append(xml_element(k))
    return e


def xml_text(spec, declaration=False, comment=False):
    s = ET.tostring(xml_element(spec), encoding="unicode")
    if comment:
        s = s.replace(">", "><!-- c -->", 1)
    if declaration:
        s = '<?xml version="1.0" encoding="UTF-8"?>\n' + s
    return s


# ------------------------------------------------------------------------------------------------------ text

def to_json(r, v):
    style = r.choice(["compact", "indent", "ascii"])
    if style == "compact":
        return json.dumps(v, ensure_ascii=False, separators=(",", ":"))
    if style == "indent":
        return json.dumps(v, ensure_ascii=False, indent=r.choice([1, 2]))
    return json.dumps(v)


def to_json5(r, v):
    """JSON plus JSON5-only syntax: comments, trailing commas, single quotes, unquoted keys."""
    def enc(x, ind):
        if isinstance(x, dict):
            if not x:
                return "{}"
            parts = []
            for k, val in x.items():
                ks = k if (k.isidentifier() and k.isascii() and r.random() < 0.5) else json.dumps(k, ensure_ascii=False)
                parts.append(f"{ks}: {enc(val, ind + 1)}")
            tail = "," if r.random() < 0.3 else ""
            return "{" + ", ".join(parts) + tail + "}"
        if isinstance(x, list):
            if not x:
                return "[]"
            tail = "," if r.random() < 0.3 else ""
            return "[" + ", ".join(enc(i, ind + 1) for i in x) + tail + "]"
        if isinstance(x, str) and x.isprintable() and not (set(x) & set("'\"\\")) and r.random() < 0.3:
            return "'" + x + "'"
        return json.dumps(x, ensure_ascii=False)
    s = enc(v, 0)
    if r.random() < 0.4:
        s = "// header\n" + s
    if r.random() < 0.2:
        s = s + " /* end */"
    return s


def to_yaml(r, v):
    import yaml
    return yaml.safe_dump(v, allow_unicode=True, default_flow_style=r.choice([None, False, True]), sort_keys=False)


def plist_value(r, depth=3):
    v = gen_container(r, depth, "plist")
    return _plist_clean(v)


def _plist_clean(v):
    if isinstance(v, dict):
        return {str(k): _plist_clean(x) for k, x in v.items()}
    if isinstance(v, list):
        return [_plist_clean(x) for x in v]
    if v is None:
        return "null"
    if isinstance(v, str):
        return "".join(ch for ch in v if ch >= " " or ch in "\t\n")
    return v


def to_plist(r, v):
    return plistlib.dumps(_plist_clean(v), fmt=plistlib.FMT_XML, sort_keys=False).decode("utf-8")


# ------------------------------------------------------------------------------------------------------ richer syntax
# Valid documents that use more of each format's syntax, so that a torn write can land inside a comment, a CDATA
# section, an escape, a block scalar, an anchor, a base64 blob ...

def rich_json(r):
    parts = ['{"e": 1.5e3, "n": -0.0, "big": 12345678901234567890, "u": "\\u00e9\\u65e5 \\ud83d\\ude00", '
             '"esc": "q\\"t\\\\b\\n\\t/", "nest": [[[[{"k": [null, true, false]}]]]], "empty": [{}, [], ""]}',
             '[1e-2, 2E+2, {"a": {"b": {"c": {"d": "deep"}}}}, "\\u0041\\u030a", [], {}]',
             '{"\\u00e9": ["\\u2028", "tab\\there"], "x y": {"": 0}}']
    return r.choice(parts)


def rich_json5(r):
    parts = ["// leading comment\n{unquoted: 'single', \"dq\": \"d\\\"q\", hex: 0x1F, plus: +1, dot: .5, trail: [1, 2, 3,], /* block\n comment */ inf: Infinity, nan: NaN, multi: 'line \\\ncontinued',}\n",
             "[ // c1\n  0xAB, -0x10, 1e3, 'ab', \"\\u00e9\", {a: {b: [1, ], c: null}} ]",
             "/* only a comment first */ {\"k\": [true, false, null], $id: 1, _u: 2, 'q': '\\x41'}"]
    return r.choice(parts)


def rich_yaml(r):
    parts = ["--- # first document\nanchors:\n  base: &base {a: 1, b: [x, y]}\n  copy: *base\n  merged:\n    <<: *base\n    c: 3\nblock: |\n  literal text\n    indented \u00e9\n  end\nfolded: >-\n  folded\n  text\nquoted: \"esc \\t \\u00e9 \\\" q\"\nsingle: 'it''s'\nflow: [1, 2.5, true, null, {k: v}]\n",
             "- &a [1, 2]\n- *a\n- ? complex\n  : value\n- !!str 123\n- |+\n  keep\n\n- \"multi\n  line\"\n",
             "a: 1\n---\nb: [2, 3]\n---\n- c\n- {d: e}\n...\n",
             "key: value # comment\nlist:\n  - item \u65e5\u672c\n  -   nested:\n        deep: [a, b]\nempty: {}\nnull_value: ~\n"]
    return r.choice(parts)


def rich_xml(r, html=False):
    root = "html" if html else "root"
    parts = [f'<?xml version="1.0" encoding="UTF-8"?>\n<!-- header comment -->\n<{root} xmlns:n="urn:x" n:attr="v&amp;w" id=\'s"q\'>\n  <![CDATA[ raw <markup> & text ]]>\n  <n:child a="1">t&#233;xt &lt;&gt; &#x65E5;</n:child>\n  <?pi target data?>\n  <empty/>\n  <mixed>before<b>bold</b>after</mixed>\n</{root}>\n',
             f'<!DOCTYPE {root} [<!ENTITY e "expanded">]>\n<{root}><a>&e;</a><b c="&e;"/><!-- c --></{root}>',
             f'<{root}><a><a><a><a deep="1">x</a></a></a></a><a/><a></a></{root}>']
    return r.choice(parts)


def rich_plist(r):
    return ('<?xml version="1.0" encoding="UTF-8"?>\n<!DOCTYPE plist PUBLIC "-//Apple//DTD PLIST 1.0//EN" '
            '"http://www.apple.com/DTDs/PropertyList-1.0.dtd">\n<plist version="1.0">\n<dict>\n\t<key>date</key>\n\t'
            '<date>2020-01-02T03:04:05Z</date>\n\t<key>data</key>\n\t<data>\n\taGVsbG8gd29ybGQ=\n\t</data>\n\t<key>real</key>\n\t'
            '<real>1.5</real>\n\t<key>neg</key>\n\t<integer>-42</integer>\n\t<key>t</key>\n\t<true/>\n\t<key>f</key>\n\t<false/>\n\t'
            '<key>arr</key>\n\t<array>\n\t\t<string>a &amp; b \u00e9</string>\n\t\t<array/>\n\t\t<dict/>\n\t</array>\n</dict>\n</plist>\n')


RICH = {"json": rich_json, "json5": rich_json5, "yaml": rich_yaml, "xml": rich_xml,
        "html": lambda r: rich_xml(r, html=True), "plist": rich_plist}
