"""C07 child interpreter: executes one explicit in-process history of graphtage calls and reports what each call
produced.  Started by the C07 check as

    [setarch <arch> -R] env PYTHONHASHSEED=<h> GSIM_HEAP_SHIFT=<n> python -m gsim.worker <spec.json> <out.json>

NON-INTERFERENCE RULE: within the history the harness never resets anything graphtage mutated.  The simulated
streams are installed once, before graphtage is imported, and never re-installed; each call's output is the slice of
the record between two marks; logging handlers, mimetypes, DEFAULT_PRINTER and whatever sys.stdout has become are
left alone.  The only accommodation is SimStream.close() being a no-op (and its descriptor being re-opened if a call
closed that), because main() closes its stdout.
"""
import gc
import json
import os
import sys


def _heap_shift(n):
    # perturbs the allocation order / address layout before anything of graphtage exists
    junk = [object() for _ in range(n)]
    keep = [junk[i] for i in range(0, len(junk), 3)]
    del junk
    return keep


def main(argv):
    spec_path, out_path = argv[1], argv[2]
    keep = _heap_shift(int(os.environ.get("GSIM_HEAP_SHIFT", "0")))
    os.environ["GSIM_NO_WARMUP"] = "1"     # nothing of graphtage runs in this process before the history itself
    from . import core
    core.use_repo()
    from .seams import SEAMS
    import graphtage
    from .seams import run_command
    from graphtage import printer as gprinter
    from . import sched
    with open(spec_path) as f:
        spec = json.load(f)
    results = []
    for ei, entry in enumerate(spec["history"]):
        SEAMS.clock.configure(entry.get("clock", "frozen"))
        # same accommodation as the no-op close(): a call that closed the *descriptor* behind the simulated stream
        # (a real process ends there) gets it back; nothing else is touched
        # (unreachable file objects of earlier calls that still own that descriptor number are finalised first, so
        #  that none of them closes it in the middle of a later call)
        gc.collect()
        SEAMS.out.renew()
        SEAMS.err.renew()
        mo = SEAMS.out.mark()
        rec = {"i": ei, "kind": entry["kind"], "item": entry.get("item")}
        if entry["kind"] == "main" and spec["items"][entry["item"]].get("stdin") is not None:
            # set-up of the simulated environment happens OUTSIDE the try: a failure here is the harness', not an outcome
            sys.stdin = _Stdin(spec["items"][entry["item"]]["stdin"].encode("utf-8"))
        try:
            if entry["kind"] == "main":
                item = spec["items"][entry["item"]]
                rc, extra_err, exc = run_command(["graphtage"] + item["argv"], embedded=True)
                if exc is not None:
                    raise exc
                rec["rc"] = rc
            elif entry["kind"] == "lib":
                # a library user between two CLI-style calls: build, diff, print with its own Printer
                wl = spec["lib_docs"][entry["doc"] % len(spec["lib_docs"])]
                a, b = sched.build_pair(wl)
                d = a.diff(b)
                sink = _Sink()
                p = gprinter.Printer(out_stream=sink, ansi_color=bool(entry.get("ansi")), quiet=bool(entry.get("quiet")))
                with p:
                    graphtage.json.JSONFormatter.DEFAULT_INSTANCE.print(p, d)
                rec["rc"] = 0
                rec["lib_out"] = sink.getvalue()
            elif entry["kind"] == "quiet":
                sched.DEFAULT_PRINTER.quiet = bool(entry.get("value"))
                rec["rc"] = 0
            else:
                raise ValueError(entry["kind"])
        except BaseException as e:  # noqa: the exception class is part of the observable outcome
            rec["exc"] = type(e).__name__
            rec["exc_site"] = core.graphtage_site(e)
            rec["exc_msg"] = str(e)[:300]
        rec["stdout"] = SEAMS.out.since(mo)
        results.append(rec)
    with open(out_path, "w") as f:
        json.dump({"results": results, "hashseed": os.environ.get("PYTHONHASHSEED"),
                   "probe_id": id(keep), "stdout_type": type(sys.stdout).__name__}, f)
    return 0


def _Stdin(data):
    """A real standard input for this child: descriptor 0 is pointed at a private in-memory file holding `data`, and
    sys.stdin is an ordinary text wrapper over it (readable, iterable, .buffer, a true fileno())."""
    import io
    fd = os.memfd_create("gsim-stdin")      # (is 0 itself if an earlier command closed descriptor 0)
    os.write(fd, data)
    os.lseek(fd, 0, os.SEEK_SET)
    if fd != 0:
        os.dup2(fd, 0)
        os.close(fd)
    return io.TextIOWrapper(io.BufferedReader(io.FileIO(0, closefd=False)), encoding="utf-8")


class _Sink:
    """An in-memory stream like the StringIO a library user would pass."""

    def __new__(cls):
        import io
        s = io.StringIO()
        return s


if __name__ == "__main__":
    rc = main(sys.argv)
    sys.__stdout__.flush()
    os._exit(rc)   # skip interpreter teardown: a leaked wrapper chain on sys.stdout must not turn into a noisy exit
