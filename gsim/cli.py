"""./check <ID> quick|thorough   |  ./check replay <file>  |  ./check selftest determinism|sensitivity [ids]"""
import os
import sys


def _normalise_signals():
    """A shell that starts the check in the background (`cmd &`, nohup, a job runner) hands it SIGINT *ignored*, and
    Python then never installs its KeyboardInterrupt handler.  The cancellation seam asks the interpreter whether a
    KeyboardInterrupt could be delivered (seams.LineCancel), so how the check was launched would decide whether
    cancellations are injected at all - an environment dependence.  The simulator owns this too: the interpreter's
    default SIGINT handler is installed explicitly (worker processes inherit it)."""
    import signal
    try:
        if signal.getsignal(signal.SIGINT) is not signal.default_int_handler:
            signal.signal(signal.SIGINT, signal.default_int_handler)
    except (ValueError, OSError):       # not the main thread / not permitted: leave as is
        pass


def main(argv):
    _normalise_signals()
    if len(argv) < 2:
        sys.__stdout__.write("%s\n" % __doc__)
        return 2
    from . import driver
    cmd = argv[1]
    if cmd == "replay":
        return driver.replay(argv[2])
    if cmd == "selftest":
        from . import selftest
        return selftest.main(argv[2:])
    pid = cmd.upper()
    if pid not in driver.CHECK_IDS:
        sys.__stdout__.write("%s\n" % f"unknown check {cmd}; known: {driver.CHECK_IDS}")
        return 2
    tier = argv[2] if len(argv) > 2 else os.environ.get("VERIF_TIER", "quick")
    if tier not in ("quick", "thorough"):
        sys.__stdout__.write("%s\n" % f"unknown tier {tier}")
        return 2
    seed = int(os.environ.get("VERIF_SEED", "0") or 0)
    budget = os.environ.get("VERIF_BUDGET_S")
    runs = os.environ.get("VERIF_RUNS")
    return driver.run_check(pid, tier, seed, budget_override=float(budget) if budget else None,
                            runs_override=int(runs) if runs else None,
                            write_evidence=not os.environ.get("GSIM_NO_EVIDENCE"))


def _guarded(argv):
    """An exception of the harness itself must be visible (sys.stderr may already be a simulated stream) and must
    never look like a verdict: exit status 2, never 1."""
    try:
        return main(argv)
    except BaseException:      # SystemExit included: gsim never calls sys.exit() itself, so it came from elsewhere
        import traceback
        sys.__stderr__.write("HARNESS-ERROR (uncaught exception in gsim)\n" + traceback.format_exc())
        sys.__stdout__.write("HARNESS-ERROR uncaught exception in gsim, see stderr\n")
        sys.__stdout__.flush()
        sys.__stderr__.flush()
        return 2


if __name__ == "__main__":
    sys.exit(_guarded(sys.argv))
