"""Self-tests of the simulator itself.

    ./check selftest determinism [IDs...] [--n N]   every run twice (and more) in fresh interpreters: 4 and 16
                                                    workers, hash seed 0 and 12345, ASLR on and off; the per-run
                                                    event-log digests must be identical
    ./check selftest sensitivity [IDs...]           each mutant of selftest/mutants.py applied to a scratch copy of
                                                    the repository; the quick tier of the named check must flag it
    ./check selftest specificity [IDs...]           behaviour-preserving refactorings (selftest/refactorings/*.diff): the
                                                    quick tier of the named check must stay silent on each
    ./check selftest digests <ID> <tier> <first> <n>   (internal) prints {run index: digest} as JSON
"""
import concurrent.futures as cf
import json
import multiprocessing as mp
import os
import platform
import shutil
import subprocess
import sys
import tempfile
import time

from . import core, driver


def _digest_worker(args):
    pid, root_seed, tier, indices = args
    check = driver.load_check(pid)
    timeout_s = check.TIERS[tier]["run_timeout_s"]
    out = {}
    for index in indices:
        case = check.gen_case(core.run_seed(root_seed, pid, index), tier, index)
        res, tb = driver.guarded_run(check, case, timeout_s)
        out[index] = "HARNESS:" + tb[-300:] if tb else res["digest"] + ("!" + res["violation"]["kind"] if res["violation"] else "")
    return out


def digests(pid, tier, first, n, workers, root_seed=0):
    idx = list(range(first, first + n))
    parts = [idx[i::workers] for i in range(workers)]
    out = {}
    with cf.ProcessPoolExecutor(max_workers=workers, mp_context=mp.get_context("fork")) as ex:
        for d in ex.map(_digest_worker, [(pid, root_seed, tier, p) for p in parts if p]):
            out.update(d)
    return out


def _fresh_digests(pid, tier, first, n, workers, hashseed, aslr_off):
    cmd = [os.path.join(core.VERIF, "check"), "selftest", "digests", pid, tier, str(first), str(n)]
    if aslr_off and shutil.which("setarch"):
        cmd = ["setarch", platform.machine(), "-R"] + cmd
    env = dict(os.environ, GSIM_HASHSEED=str(hashseed), VERIF_WORKERS=str(workers))
    p = subprocess.run(cmd, capture_output=True, text=True, env=env, timeout=3600)
    if p.returncode != 0:
        raise RuntimeError(f"digest subprocess failed: {p.stdout[-500:]} {p.stderr[-1500:]}")
    line = [ln for ln in p.stdout.splitlines() if ln.startswith("{")][-1]
    return {int(k): v for k, v in json.loads(line).items()}


DET_N = {"C04": 400, "C05": 240, "C07": 6, "C16": 600, "C17": 600, "C20": 12}
# first index used per check (skip C16's enumerated prefix so that random histories are covered too)
DET_FIRST = {"C16": 26100}


def determinism(ids, n_override=None):
    bad = 0
    for pid in ids:
        n = n_override or DET_N[pid]
        first = DET_FIRST.get(pid, 0)
        t0 = time.time()
        configs = [(4, 0, True), (16, 0, False), (16, 12345, True), (5, 12345, False)]
        results = []
        for (workers, hs, aslr_off) in configs:
            results.append(_fresh_digests(pid, "quick", first, n, workers, hs, aslr_off))
        base = results[0]
        diverged = []
        for i in sorted(base):
            vals = [r.get(i) for r in results]
            if len(set(vals)) != 1:
                diverged.append((i, vals))
        harness = [i for i, v in base.items() if str(v).startswith("HARNESS")]
        core.out(f"[determinism] {pid}: {n} runs x {len(configs)} fresh interpreters "
                 f"(workers/hashseed/aslr_off = {configs}): {len(diverged)} diverged, {len(harness)} harness errors, "
                 f"{time.time() - t0:.0f}s")
        for i, vals in diverged[:5]:
            core.out(f"    run {i}: {vals}")
        bad += len(diverged) + len(harness)
    core.out("[determinism] " + ("OK" if not bad else f"FAILED ({bad})"))
    return 0 if not bad else 2


# ---------------------------------------------------------------------------------------------- sensitivity
def _scratch_repo(mutant):
    d = tempfile.mkdtemp(prefix="gsim-mut-")
    shutil.copytree(os.path.join(core.REPO, "graphtage"), os.path.join(d, "graphtage"))
    if "patch" in mutant:
        p = subprocess.run(["patch", "-p1", "-s", "-i", os.path.join(core.VERIF, "selftest", "mutants", mutant["patch"])],
                           cwd=d, capture_output=True, text=True)
        if p.returncode != 0:
            shutil.rmtree(d, ignore_errors=True)
            raise RuntimeError(f"patch {mutant['patch']} does not apply: {p.stdout} {p.stderr}")
    else:
        path = os.path.join(d, "graphtage", mutant["file"])
        with open(path) as f:
            s = f.read()
        if s.count(mutant["old"]) != 1:
            shutil.rmtree(d, ignore_errors=True)
            raise RuntimeError(f"mutant {mutant['name']}: anchor text occurs {s.count(mutant['old'])} times in {mutant['file']}")
        with open(path, "w") as f:
            f.write(s.replace(mutant["old"], mutant["new"]))
    return d


def sensitivity(ids, names=None):
    sys.path.insert(0, os.path.join(core.VERIF, "selftest"))
    import mutants as M
    rows = []
    missed = 0
    for m in M.MUTANTS:
        if ids and m["property"] not in ids:
            continue
        if names and m["name"] not in names:
            continue
        try:
            d = _scratch_repo(m)
        except RuntimeError as e:
            core.out(f"[sensitivity] {m['property']} {m['name']:<44} INVALID MUTANT: {e}")
            missed += 1
            continue
        t0 = time.time()
        try:
            env = dict(os.environ, GSIM_REPO=d, GSIM_NO_EVIDENCE="1", GSIM_REPLAY_DIR=os.path.join(d, "replays"))
            try:
                p = subprocess.run([os.path.join(core.VERIF, "check"), m["property"], "quick"], capture_output=True,
                                   text=True, env=env, timeout=3600)
                out = p.stdout
            except subprocess.TimeoutExpired as te:
                class _P:      # a mutant that makes the check crawl: reported as such, the sweep goes on
                    returncode = 124
                p = _P()
                out = (te.stdout or b"").decode("utf-8", "replace") if isinstance(te.stdout, bytes) else (te.stdout or "")
        finally:
            shutil.rmtree(d, ignore_errors=True)
        viol = [ln for ln in out.splitlines() if ln.startswith("VIOLATION")]
        kinds = [ln.split("kind=")[1].split(" run=")[0] for ln in out.splitlines() if "violation kind=" in ln]
        runs = [ln for ln in out.splitlines() if "] runs=" in ln]
        detected = p.returncode == 1 and bool(viol)
        expect = m.get("expect", "detect")
        ok = detected if expect == "detect" else True      # 'any': behaviour-preserving or rarely visible
        if not ok:
            missed += 1
        rows.append({"mutant": m["name"], "property": m["property"], "detected": detected, "expected": expect,
                     "kinds": kinds[:3], "wall_s": round(time.time() - t0, 1), "rc": p.returncode})
        core.out(f"[sensitivity] {m['property']} {m['name']:<44} {'DETECTED' if detected else 'missed  '} rc={p.returncode} "
                 f"{time.time() - t0:5.0f}s {kinds[:2]} {'' if ok else '<-- UNEXPECTED'}")
    if not names:          # a partial run (named mutants) does not replace the record of the last full one
        with open(os.path.join(core.VERIF, "selftest", "sensitivity_last.json"), "w") as f:
            json.dump(rows, f, indent=1)
    core.out(f"[sensitivity] {len(rows)} mutants, {missed} unexpected outcomes")
    return 0 if not missed else 2


def specificity(ids, names=None):
    """Behaviour-preserving refactorings (selftest/refactorings/<ID>_<name>.diff, written by reviewers who tried to
    provoke false alarms): the quick tier of the named check must stay silent on every one of them.  A file whose
    name contains 'probe' is run WITH the in-batch determinism probe."""
    d0 = os.path.join(core.VERIF, "selftest", "refactorings")
    bad = 0
    rows = []
    for fn in sorted(os.listdir(d0)):
        if not fn.endswith(".diff"):
            continue
        pid = fn.split("_")[0]
        if ids and pid not in ids:
            continue
        if names and not any(nm in fn for nm in names):
            continue
        d = tempfile.mkdtemp(prefix="gsim-ref-")
        t0 = time.time()
        try:
            shutil.copytree(os.path.join(core.REPO, "graphtage"), os.path.join(d, "graphtage"))
            p = subprocess.run(["patch", "-p1", "-s", "-i", os.path.join(d0, fn)], cwd=d, capture_output=True, text=True)
            if p.returncode != 0:
                core.out(f"[specificity] {fn}: does not apply to the current tree (skipped): {p.stdout[-200:]}")
                rows.append({"refactoring": fn, "outcome": "does-not-apply"})
                continue
            env = dict(os.environ, GSIM_REPO=d, GSIM_NO_EVIDENCE="1", GSIM_NO_PROBE="1",
                       GSIM_REPLAY_DIR=os.path.join(d, "replays"))
            if "probe" in fn:
                env.pop("GSIM_NO_PROBE")
            p = subprocess.run([os.path.join(core.VERIF, "check"), pid, "quick"], capture_output=True, text=True, env=env,
                               timeout=1800)
            ok = p.returncode == 0
            bad += 0 if ok else 1
            kinds = [ln for ln in p.stdout.splitlines() if "violation kind=" in ln or "HARNESS-ERROR" in ln][:2]
            rows.append({"refactoring": fn, "outcome": "silent" if ok else f"ALARM rc={p.returncode}", "lines": kinds})
            core.out(f"[specificity] {pid} {fn:<34} {'silent' if ok else 'ALARM rc=%d' % p.returncode} "
                     f"{time.time() - t0:4.0f}s {kinds}")
        finally:
            shutil.rmtree(d, ignore_errors=True)
    if not names:
        with open(os.path.join(core.VERIF, "selftest", "specificity_last.json"), "w") as f:
            json.dump(rows, f, indent=1)
    core.out(f"[specificity] {len(rows)} refactorings, {bad} alarms")
    return 0 if not bad else 2


def main(argv):
    if not argv:
        core.out(__doc__)
        return 2
    what = argv[0]
    rest = [a for a in argv[1:] if not a.startswith("--")]
    if what == "digests":
        pid, tier, first, n = rest[0].upper(), rest[1], int(rest[2]), int(rest[3])
        workers = int(os.environ.get("VERIF_WORKERS", "8"))
        core.out(json.dumps(digests(pid, tier, first, n, workers, int(os.environ.get("VERIF_SEED", "0") or 0))))
        return 0
    ids = [a.upper() for a in rest if a.upper() in driver.CHECK_IDS] or list(driver.CHECK_IDS)
    names = [a for a in rest if a.upper() not in driver.CHECK_IDS]
    if what == "determinism":
        n = None
        for a in argv:
            if a.startswith("--n="):
                n = int(a[4:])
        return determinism(ids, n)
    if what == "specificity":
        return specificity([a.upper() for a in rest if a.upper() in driver.CHECK_IDS], names or None)
    if what == "sensitivity":
        return sensitivity([a.upper() for a in rest if a.upper() in driver.CHECK_IDS], names or None)
    core.out(__doc__)
    return 2
