"""Generic batch driver: seeded runs across a fork pool, classification, minimisation, replay files,
known-findings handling and evidence files.

A check module exposes an object CHECK with
    ID, LEVEL, RULE, ASSUMPTIONS, COMPONENTS, TIERS {tier: {runs, budget_s, chunk, run_timeout_s}}
    gen_case(seed, tier, index) -> explicit, JSON-serialisable case
    run_case(case) -> result dict (see result())
    shrink_candidates(case) -> iterator of smaller cases (most aggressive first)
A run is a pure function of its case; a case is a pure function of (VERIF_SEED, property, index, tier).
"""
import concurrent.futures as cf
import faulthandler
import hashlib
import importlib
import json
import multiprocessing as mp
import os
import subprocess
import sys
import time
import traceback

from . import core
from .core import RunTimeout, Violation, Watchdog

CHECK_IDS = ["C04", "C05", "C07", "C16", "C17", "C20"]


def load_check(pid: str):
    core.use_repo()
    mod = importlib.import_module(f"gsim.checks.{pid.lower()}")
    return mod.CHECK


def result(violation=None, digest="", nt=None, counters=None, sim_s=0.0, ood=False, aborted_other=False,
           trace=None):
    return {"violation": violation, "digest": digest, "nt": nt, "counters": counters or {}, "sim_s": sim_s,
            "ood": ood, "aborted_other": aborted_other, "trace": trace}


def signature(v):
    return (v["kind"], v["site"])


# ----------------------------------------------------------------------------------------------------------
# one run, guarded

def guarded_run(check, case, timeout_s):
    """Runs one case under the watchdog.  Returns (result, harness_traceback_or_None)."""
    try:
        # the process-wide PRNGs are a source of nondeterminism too: code under test that draws from them (a
        # randomised pivot, say) must draw the same numbers in every execution of the same case
        import random as _random
        _random.seed(0x6753494D)
        try:
            import numpy as _np
            _np.random.seed(0x6753494D & 0x7FFFFFFF)
        except Exception:
            pass
        with Watchdog(timeout_s):
            res = check.run_case(case)
        return res, None
    except RunTimeout:
        if getattr(check, "HANG_IS_VIOLATION", False):
            return result(violation={"kind": "hang", "site": "watchdog",
                                     "detail": f"run exceeded {timeout_s}s wall clock"}, digest="hang"), None
        return result(aborted_other=True, digest="hang", counters={"hang": 1}), None
    except Violation as v:  # a check may simply raise
        return result(violation=v.as_dict(), digest="violation"), None
    except Exception:
        return None, traceback.format_exc()


_STOP = None  # multiprocessing.Event shared with forked workers: set once an unlisted violation was seen


def _chunk_worker(args):
    pid, root_seed, tier, first, n, timeout_s, want_samples = args
    faulthandler.enable()
    check = load_check(pid)
    out = {"first": first, "n": 0, "nt": [], "counters": {}, "sim_s": 0.0, "violations": [], "samples": [],
           "ood": 0, "aborted_other": 0, "harness": [], "digests": []}
    m = hashlib.sha256()
    findings = load_findings()
    seen_digests = set()
    unlisted = 0
    listed = 0
    hang = False
    for index in range(first, first + n):
        if (_STOP is not None and _STOP.is_set()) or unlisted >= 3 or hang:
            out["truncated"] = True
            break
        seed = core.run_seed(root_seed, pid, index)
        try:
            case = check.gen_case(seed, tier, index)
        except Exception:
            out["harness"].append((index, "gen_case: " + traceback.format_exc()))
            continue
        res, tb = guarded_run(check, case, timeout_s)
        out["n"] += 1
        if tb is not None:
            out["harness"].append((index, tb))
            continue
        m.update(res["digest"].encode())
        seen_digests.add(res["digest"])
        if len(out["digests"]) < 5:
            out["digests"].append((index, res["digest"] + ("!" + res["violation"]["kind"] if res["violation"] else "")))
        if res.get("nts"):
            out["nt"].extend(res["nts"])
        elif res["nt"] is not None:
            out["nt"].append(res["nt"])
        for k, v in res["counters"].items():
            out["counters"][k] = out["counters"].get(k, 0) + v
        out["sim_s"] += res["sim_s"]
        out["ood"] += 1 if res["ood"] else 0
        out["aborted_other"] += 1 if res["aborted_other"] else 0
        if res["violation"] is not None:
            if match_finding(findings, pid, res["violation"]) is not None:
                listed += 1          # a listed finding: keep exploring, keep only a couple of witnesses
                out["counters"]["known_finding_hits"] = out["counters"].get("known_finding_hits", 0) + 1
                if listed <= 2:
                    out["violations"].append((index, res["violation"], res.get("case") or case))
            else:
                unlisted += 1
                hang = hang or res["violation"]["kind"] == "hang"
                out["violations"].append((index, res["violation"], res.get("case") or case))
        # samples for the evidence: non-trivial cases (a couple from the first chunks, one from every later chunk -
        # the first chunks of an enumerating check may hold nothing but trivial cases), else the first case at all
        if res["nt"] is not None and len(out["samples"]) < max(want_samples, 1):
            out["samples"].append({"run": index, "seed": seed, "case": case, "trace": res.get("trace"),
                                   "digest": res["digest"], "nontrivial": True})
        elif index == 0:
            out["samples"].append({"run": index, "seed": seed, "case": case, "trace": res.get("trace"),
                                   "digest": res["digest"], "nontrivial": False})
    out["chunk_digest"] = m.hexdigest()[:24]
    out["distinct_digests"] = len(seen_digests)
    return out


# ----------------------------------------------------------------------------------------------------------
# minimisation

def ddmin_list(lst):
    """Candidate sub-lists, most aggressive first (complement removal at decreasing granularity)."""
    n = len(lst)
    if n == 0:
        return
    size = n
    while size >= 1:
        size = max(1, size // 2) if size > 1 else 0
        if size == 0:
            break
        for start in range(0, n, size):
            cand = lst[:start] + lst[start + size:]
            if len(cand) < n:
                yield cand
        if size == 1:
            break


def minimise(check, case, sig, timeout_s, max_exec=400, max_wall=60.0):
    t0 = time.time()
    best = case
    execs = 0
    improved = True
    while improved and execs < max_exec and time.time() - t0 < max_wall:
        improved = False
        for cand in check.shrink_candidates(best):
            if execs >= max_exec or time.time() - t0 >= max_wall:
                break
            execs += 1
            res, tb = guarded_run(check, cand, timeout_s)
            if tb is None and res["violation"] is not None and signature(res["violation"]) == sig:
                best = cand
                improved = True
                break
    return best, execs


def _minimise_worker(args):
    pid, case, sig, timeout_s = args
    check = load_check(pid)
    if sig[0] == "hang":
        best, execs = case, 0     # every re-execution of a hang costs a full watchdog period: report it as found
    else:
        best, execs = minimise(check, case, tuple(sig), timeout_s)
    res, tb = guarded_run(check, best, timeout_s)
    return best, execs, res, tb


# ----------------------------------------------------------------------------------------------------------
# known findings

def load_findings():
    path = os.path.join(core.VERIF, "known_findings.txt")
    findings = []
    if os.path.exists(path):
        with open(path) as f:
            for line in f:
                line = line.strip()
                if not line.startswith("finding:"):
                    continue  # `fixed:` lines and comments suppress nothing
                fields = dict(tok.split("=", 1) for tok in line.split()[1:4] if "=" in tok)
                findings.append({"property": fields.get("property"), "kind": fields.get("kind"),
                                 "site": fields.get("site"), "text": line})
    return findings


def _finding_body(f):
    """'kind=... site=... <what fails>' (the line without its 'finding: property=<id>' prefix)."""
    parts = f["text"].split(None, 2)
    return parts[2] if len(parts) > 2 else f["text"]


def match_finding(findings, pid, v):
    for f in findings:
        if f["property"] == pid and f["kind"] == v["kind"] and f["site"] == v["site"]:
            return f
    return None


# ----------------------------------------------------------------------------------------------------------
# replay files

def write_replay(pid, root_seed, index, tier, case, res, extra=None):
    d = os.environ.get("GSIM_REPLAY_DIR") or os.path.join(core.VERIF, "replays")
    os.makedirs(d, exist_ok=True)
    path = os.path.join(d, f"{pid}-{root_seed}-{index}.json")
    doc = {"property": pid, "kind": res["violation"]["kind"], "site": res["violation"]["site"],
           "detail": res["violation"]["detail"], "seed": root_seed, "run": index, "tier": tier,
           "case": case, "trace": res.get("trace"), "event_log_digest": res["digest"],
           "repo_digest": core.repo_digest()}
    if extra:
        doc.update(extra)
    with open(path, "w") as f:
        json.dump(doc, f, indent=1, sort_keys=True, default=repr)
    return path


def replay(path) -> int:
    with open(path) as f:
        doc = json.load(f)
    pid = doc["property"]
    check = load_check(pid)
    timeout_s = max(t["run_timeout_s"] for t in check.TIERS.values())
    res, tb = guarded_run(check, doc["case"], timeout_s)
    if tb is not None:
        core.out(f"HARNESS-ERROR property={pid}\n{tb}")
        return 2
    core.out(f"replay property={pid} digest={res['digest']} recorded_digest={doc.get('event_log_digest')}")
    if res.get("trace"):
        for line in res["trace"][-40:]:
            core.out("   ", line)
    if res["violation"] is None:
        core.out(f"replay: no violation reproduced (recorded kind={doc.get('kind')} site={doc.get('site')})")
        return 0
    v = res["violation"]
    core.out(f"replay: kind={v['kind']} site={v['site']}\n   {v['detail'][:1500]}")
    f = match_finding(load_findings(), pid, v)
    if f:
        core.out(f"KNOWN-FINDING: property={pid} {_finding_body(f)}")
        return 0
    core.out(f"VIOLATION property={pid} replay={path}")
    return 1


def replay_fresh(path):
    """Replays in a fresh interpreter; returns (exit_code, stdout)."""
    p = subprocess.run([os.path.join(core.VERIF, "check"), "replay", path], capture_output=True, text=True,
                       timeout=600)
    return p.returncode, p.stdout + p.stderr


# ----------------------------------------------------------------------------------------------------------
# batch

def run_check(pid: str, tier: str, root_seed: int, workers=None, budget_override=None, runs_override=None,
              quiet=False, write_evidence=True) -> int:
    t0 = time.time()
    check = load_check(pid)
    cfg = dict(check.TIERS[tier])
    if runs_override:
        cfg["runs"] = runs_override
    if budget_override:
        cfg["budget_s"] = budget_override
    workers = workers or int(os.environ.get("VERIF_WORKERS", "0")) or min(16, os.cpu_count() or 4)
    runs, chunk, budget = cfg["runs"], cfg["chunk"], cfg["budget_s"]
    timeout_s = cfg["run_timeout_s"]
    say = (lambda *a: None) if quiet else core.out
    say(f"[{pid}] tier={tier} VERIF_SEED={root_seed} runs={runs} workers={workers} budget={budget}s "
        f"repo={core.REPO} repo_digest={core.repo_digest()}")

    chunks = [(pid, root_seed, tier, first, min(chunk, runs - first), timeout_s, 2 if first < chunk * 4 else 0)
              for first in range(0, runs, chunk)]
    agg = {"n": 0, "nt": set(), "counters": {}, "sim_s": 0.0, "violations": [], "samples": [], "ood": 0,
           "aborted_other": 0, "harness": [], "chunk_digests": {}, "digests": {}}
    budget_exhausted = False
    stopped_early = False
    pool_error = None
    ctx = mp.get_context("fork")
    pending = list(reversed(chunks))
    global _STOP
    _STOP = ctx.Event()
    findings = load_findings()
    last_progress = time.time()
    with cf.ProcessPoolExecutor(max_workers=workers, mp_context=ctx) as ex:
        live = {}
        try:
            while pending or live:
                while pending and len(live) < workers * 2:
                    if time.time() - t0 > budget:
                        budget_exhausted = True
                        pending.clear()
                        break
                    a = pending.pop()
                    live[ex.submit(_chunk_worker, a)] = a
                if not live:
                    break
                done, _ = cf.wait(list(live), timeout=5.0, return_when=cf.FIRST_COMPLETED)
                for fut in done:
                    a = live.pop(fut)
                    out = fut.result()
                    agg["n"] += out["n"]
                    agg["nt"].update(out["nt"])
                    for k, v in out["counters"].items():
                        agg["counters"][k] = agg["counters"].get(k, 0) + v
                    agg["sim_s"] += out["sim_s"]
                    agg["ood"] += out["ood"]
                    agg["aborted_other"] += out["aborted_other"]
                    agg["violations"].extend(out["violations"])
                    agg["harness"].extend(out["harness"])
                    if len(agg["samples"]) < 40:
                        agg["samples"].extend(out["samples"])
                    agg["chunk_digests"][out["first"]] = out["chunk_digest"]
                    agg["distinct_digests"] = agg.get("distinct_digests", 0) + out.get("distinct_digests", 0)
                    agg["digests"][out["first"]] = out["digests"]
                    if any(match_finding(findings, pid, v) is None for _, v, _ in out["violations"]):
                        # an unlisted violation: no point in exploring further, stop everybody
                        _STOP.set()
                        pending.clear()
                        stopped_early = True
                if done:
                    last_progress = time.time()
                # hard stop: chunks still running long after the budget AND no chunk finished for a long while (a
                # loaded machine makes everything slow, which is not an error as long as work keeps completing)
                if time.time() - t0 > budget + max(120.0, timeout_s * 4) and live and \
                        time.time() - last_progress > max(300.0, timeout_s * 6):
                    pool_error = f"{len(live)} chunk(s) still running {time.time() - t0:.0f}s after start"
                    for fut in live:
                        fut.cancel()
                    for p in list(ex._processes.values()):
                        p.kill()
                    break
        except cf.process.BrokenProcessPool as e:
            pool_error = f"worker died: {e!r}"

    wall_runs = time.time() - t0
    agg["violations"].sort(key=lambda t: t[0])
    agg["samples"].sort(key=lambda s: (not s.get("nontrivial", True), s["run"]))

    # ------------------------------------------------------------------ violations
    by_sig = {}
    for index, v, case in agg["violations"]:
        by_sig.setdefault(signature(v), (index, v, case))
    exit_code = 0
    reported = []
    known_lines = []
    for sig, (index, v, case) in sorted(by_sig.items(), key=lambda kv: kv[1][0]):
        f = match_finding(findings, pid, v)
        if f:
            line = f"KNOWN-FINDING: property={pid} {_finding_body(f)}"
            known_lines.append(line)
            core.out(line)
            continue
        if len(reported) >= 6:
            continue
        say(f"[{pid}] violation kind={v['kind']} site={v['site']} run={index}; minimising ...")
        try:
            with cf.ProcessPoolExecutor(max_workers=1, mp_context=ctx) as ex:
                best, execs, res, tb = ex.submit(_minimise_worker, (pid, case, list(sig), timeout_s)).result(
                    timeout=300)
        except Exception as e:  # minimiser died: report the unminimised case
            best, execs, tb = case, 0, None
            res, tb = guarded_run(check, case, timeout_s)
        if tb is not None or res is None or res["violation"] is None:
            # could not re-run in the minimiser: keep the original
            res = {"violation": v, "digest": "", "trace": None}
            best = case
        path = write_replay(pid, root_seed, index, tier, best, res, {"minimise_execs": execs})
        rc, out = replay_fresh(path)
        confirmed = rc == 1 and f"VIOLATION property={pid}" in out
        say(f"[{pid}]   kind={res['violation']['kind']} site={res['violation']['site']}")
        say(f"[{pid}]   {res['violation']['detail'][:600]}")
        say(f"[{pid}]   minimised in {execs} executions; fresh-interpreter replay "
            f"{'reproduced it' if confirmed else 'DID NOT reproduce it (rc=%d)' % rc}")
        if not confirmed:
            # a violation that does not replay is a harness defect, not a verdict
            agg["harness"].append((index, f"violation kind={v['kind']} site={v['site']} did not replay in a fresh "
                                          f"interpreter:\n{out[-1500:]}"))
            continue
        core.out(f"VIOLATION property={pid} replay={path}")
        reported.append({"kind": res["violation"]["kind"], "site": res["violation"]["site"], "run": index,
                         "replay": path})
        exit_code = 1

    if agg["harness"] or pool_error:
        exit_code = exit_code or 2
        for index, tb in agg["harness"][:3]:
            core.out(f"HARNESS-ERROR property={pid} run={index}\n{tb}")
        if pool_error:
            core.out(f"HARNESS-ERROR property={pid} pool: {pool_error}")

    # ------------------------------------------------------------------ a blind check does not "hold"
    max_ood = getattr(check, "MAX_OOD_FRACTION", 0.9)
    if agg["n"] and exit_code == 0 and agg["ood"] > max_ood * agg["n"]:
        exit_code = 2
        core.out(f"HARNESS-ERROR property={pid} the check is blind: {agg['ood']} of {agg['n']} runs were out of domain "
                 f"(the generated cases do not reach the code under test on this tree)")

    # ------------------------------------------------------------------ determinism probe
    # a few runs of this very batch again, in a FRESH interpreter under another hash seed: same event-log digests
    det = {"checked": 0, "diverged": []}
    n_probe = getattr(check, "DETERMINISM_PROBE_RUNS", 5)
    if n_probe and agg["digests"] and exit_code == 0 and not os.environ.get("GSIM_NO_PROBE"):
        firsts = sorted(agg["digests"])
        first = firsts[len(firsts) // 2]
        mine = dict(agg["digests"][first][:n_probe])
        if mine:
            try:
                env = dict(os.environ, GSIM_HASHSEED="12345", VERIF_WORKERS="2", VERIF_SEED=str(root_seed))
                lo, hi = min(mine), max(mine)
                p = subprocess.run([os.path.join(core.VERIF, "check"), "selftest", "digests", pid, tier, str(lo),
                                    str(hi - lo + 1)], capture_output=True, text=True, env=env, timeout=900)
                line = [ln for ln in p.stdout.splitlines() if ln.startswith("{")][-1]
                theirs = {int(k): v for k, v in json.loads(line).items()}
                for i, dg in mine.items():
                    det["checked"] += 1
                    if theirs.get(i) != dg:
                        det["diverged"].append((i, dg, theirs.get(i)))
            except Exception as e:
                det["error"] = repr(e)[:300]
        if det["diverged"] and not det.get("error"):
            # Is it the simulator that is not deterministic, or does the CODE UNDER TEST consult object addresses
            # (e.g. an id()-based tie-break among equal keys - legal, reviewer variant C16 r3v6)?  The same runs twice
            # with address-space randomisation off and one worker: equal layouts, so equal digests iff addresses are
            # the only thing the executions depend on besides the case.
            try:
                import platform
                import shutil
                idx = sorted(i for i, _, _ in det["diverged"])
                lo, hi = idx[0], idx[-1]
                cmd = [os.path.join(core.VERIF, "check"), "selftest", "digests", pid, tier, str(lo), str(hi - lo + 1)]
                if shutil.which("setarch"):
                    cmd = ["setarch", platform.machine(), "-R"] + cmd
                    env = dict(os.environ, GSIM_HASHSEED="12345", VERIF_WORKERS="1", VERIF_SEED=str(root_seed))
                    two = []
                    for _ in range(2):
                        p = subprocess.run(cmd, capture_output=True, text=True, env=env, timeout=900)
                        two.append([ln for ln in p.stdout.splitlines() if ln.startswith("{")][-1])
                    if two[0] == two[1]:
                        det["address_dependent"] = True
            except Exception as e:
                det["error2"] = repr(e)[:300]
        if det.get("address_dependent"):
            say(f"[{pid}] determinism probe: {len(det['diverged'])} of {det['checked']} re-executed runs differ between "
                f"processes but are identical under a pinned address layout (setarch -R): the code under test consults "
                f"object addresses; replay files of this tree reproduce only under the same layout")
        elif det["diverged"] or det.get("error"):
            exit_code = 2
            core.out(f"HARNESS-ERROR property={pid} determinism probe: {det}")
        else:
            say(f"[{pid}] determinism probe: {det['checked']} runs re-executed in a fresh interpreter under "
                f"PYTHONHASHSEED=12345: identical digests")

    # ------------------------------------------------------------------ evidence
    wall = time.time() - t0
    m = hashlib.sha256()
    for first in sorted(agg["chunk_digests"]):
        m.update(agg["chunk_digests"][first].encode())
    counters = dict(sorted(agg["counters"].items()))
    probes = {k: v for k, v in counters.items() if k.startswith("probe.")}
    declared = getattr(check, "PROBES", [])
    stuck = [p for p in declared if not counters.get("probe." + p)]
    faults = {k[len("fault."):]: v for k, v in counters.items() if k.startswith("fault.")}
    ev = {
        "property_id": pid, "tier": tier, "seed": root_seed, "level": check.LEVEL,
        "coverage": {
            "evaluations": counters.get(getattr(check, "EVAL_COUNTER", ""), agg["n"]),
            "distinct_nontrivial": len(agg["nt"]),
            "rule": check.RULE,
            "samples": [{"run": s["run"], "nontrivial": s.get("nontrivial", True), "case": s["case"],
                         "trace": (s["trace"] or [])[:60]} for s in agg["samples"][:3]],
            "exhaustive": bool(getattr(check, "EXHAUSTIVE", False)),
            "runs_planned": runs, "runs_completed": agg["n"], "budget_exhausted": budget_exhausted,
            "stopped_early_on_violation": stopped_early,
            "runs_per_hour": int(agg["n"] / max(wall_runs, 1e-6) * 3600),
            "workers": workers,
            "simulated_seconds": round(agg["sim_s"], 3),
            "faults_fired": faults,
            "probes": {k[len("probe."):]: v for k, v in probes.items()},
            "probes_stuck_at_zero": stuck,
            "other_counters": {k: v for k, v in counters.items()
                               if not k.startswith("probe.") and not k.startswith("fault.")},
            "out_of_domain": agg["ood"], "aborted_other": agg["aborted_other"],
            "harness_errors": len(agg["harness"]),
            "batch_digest": m.hexdigest()[:24],
            "distinct_executions": agg.get("distinct_digests", 0),
            "distinct_executions_measure": "number of distinct event-log digests (the digest covers the decoded "
                                           "schedule / history / fault list AND every observed result), counted "
                                           "within each chunk and summed over chunks",
            "determinism_probe": det,
            "components": check.COMPONENTS,
            "known_findings_printed": known_lines,
            "violations_reported": reported,
            "repo_digest": core.repo_digest(),
        },
        "assumptions": check.ASSUMPTIONS,
        "wall_s": round(wall, 2),
        "violations": len(reported),
    }
    extra = getattr(check, "evidence_extra", None)
    if extra:
        ev["coverage"].update(extra(tier, counters))
    if write_evidence:
        d = os.path.join(core.VERIF, "evidence")
        os.makedirs(d, exist_ok=True)
        with open(os.path.join(d, f"{pid}.json"), "w") as f:
            json.dump(ev, f, indent=1, default=repr)
    say(f"[{pid}] runs={agg['n']}/{runs} distinct_nontrivial={len(agg['nt'])} ood={agg['ood']} "
        f"aborted_other={agg['aborted_other']} violations={len(reported)} known={len(known_lines)} "
        f"harness={len(agg['harness'])} wall={wall:.1f}s ({ev['coverage']['runs_per_hour']} runs/h) "
        f"batch_digest={ev['coverage']['batch_digest']}")
    if stuck:
        say(f"[{pid}] probes stuck at zero: {stuck}")
    say(f"[{pid}] {'PASS' if exit_code == 0 else ('VIOLATION' if exit_code == 1 else 'HARNESS-ERROR')}")
    return exit_code
