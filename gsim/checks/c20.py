"""C20 - Malformed input is reported, not crashed on.

Simulation: valid generated documents are written to the simulated disk (real files in a private scratch directory
whose *content* comes from the fault model below), then a fault is applied to the stored bytes, as a crashed or
careless writer or a bad block would.  A corrupted file is kept only if every independent parser of its format
rejects it.  The kept file is handed to the real graphtage.__main__.main, in-process, with simulated stdout / stderr
/ clock, as first or second file, by extension and by explicit type spelling, with status output on and off.

Level fault_enumeration: torn writes are enumerated at *every* byte offset of every generated document; the other
kinds (lost tail block, zero-filled tail, flipped bit, dropped / duplicated delimiter, unbalanced bracket or tag,
compositions of two) are enumerated over all delimiter positions up to a cap and sampled beyond it.
"""
import json
import logging
import os
import plistlib
import re
import shutil
import subprocess
import sys
import tempfile
import xml.dom.minidom
import xml.parsers.expat

from .. import core
from ..core import EventLog, Streams
from ..driver import result, ddmin_list
from .. import gen

core.use_repo()
from ..seams import SEAMS  # noqa: E402
import tqdm  # noqa: E402
import yaml  # noqa: E402
import json5  # noqa: E402
import graphtage  # noqa: E402


from ..seams import run_command as command  # noqa: E402  (the command, in-process: runpy + sys.exit semantics)


_UNCAUGHT = "<<gsim: uncaught exception left graphtage>>"
# `python -m graphtage <args>` with one addition: an exception that escapes is marked before Python prints it (a
# traceback that graphtage itself logs, e.g. with exc_info, is not an uncaught exception)
_LAUNCHER = ("import runpy, sys\n"
             "sys.argv = sys.argv[1:]\n"
             "try:\n"
             "    runpy.run_module('graphtage', run_name='__main__', alter_sys=True)\n"
             "except SystemExit:\n"
             "    raise\n"
             "except BaseException:\n"
             "    sys.stderr.write('\\n" + _UNCAUGHT + "\\n')\n"
             "    raise\n")

FORMATS = ["json", "json5", "yaml", "xml", "html", "plist"]
EXT = {"json": ".json", "json5": ".json5", "yaml": ".yaml", "xml": ".xml", "html": ".html", "plist": ".plist"}
MIME = {"json": "application/json", "json5": "application/json5", "yaml": "application/x-yaml",
        "xml": "application/xml", "html": "text/html", "plist": "application/x-plist"}
DELIMS = {
    "json": b'{}[]",:', "json5": b"{}[]\",:'/", "yaml": b"{}[]\",:'-", "xml": b"<>\"/=", "html": b"<>\"/=",
    "plist": b"<>\"/",
}


# ---------------------------------------------------------------------------------------------- reference parsers
def _rejects_json(data: bytes) -> bool:
    try:
        json.loads(data.decode("utf-8"))
        return False
    except ValueError:
        return True


def _rejects_json5(data: bytes) -> bool:
    try:
        json5.loads(data.decode("utf-8"))
        return False
    except Exception:
        return True


def _rejects_yaml(data: bytes) -> bool:
    """Rejected only if the pure-Python *and* the C safe loader cannot even PARSE it (scanner / parser / reader
    errors).  Errors of later stages - an unknown application tag, an unhashable mapping key, an undefined alias -
    are not syntax errors: a loader that accepts such documents is not accepting malformed input."""
    verdicts = []
    for loader in (yaml.SafeLoader, getattr(yaml, "CSafeLoader", yaml.SafeLoader)):
        try:
            for _ in yaml.parse(data, Loader=loader):
                pass
            verdicts.append(False)
        except (yaml.scanner.ScannerError, yaml.parser.ParserError, yaml.reader.ReaderError):
            verdicts.append(True)
        except Exception:
            verdicts.append(False)   # not a syntax verdict: do not keep
    return all(verdicts)


def _rejects_xml(data: bytes) -> bool:
    p = xml.parsers.expat.ParserCreate()
    try:
        p.Parse(data, True)
        return False
    except xml.parsers.expat.ExpatError:
        return True
    except Exception:
        return False   # e.g. LookupError for an unknown declared encoding: not a syntax verdict -> not kept


_PLIST_SCALARS = {"string", "integer", "real", "true", "false", "date", "data"}


def _plist_struct_ok(node) -> bool:
    kids = [k for k in node.childNodes if k.nodeType == k.ELEMENT_NODE]
    t = node.tagName
    if t in _PLIST_SCALARS:
        return not kids
    if t == "array":
        return all(_plist_struct_ok(k) for k in kids)
    if t == "dict":
        if len(kids) % 2:
            return False
        for i in range(0, len(kids), 2):
            if kids[i].tagName != "key" or kids[i + 1].tagName == "key":
                return False
            if not _plist_struct_ok(kids[i + 1]):
                return False
        return True
    return False


def _rejects_plist(data: bytes) -> bool:
    """Rejected only if plistlib *and* an independent structural validator over minidom reject it."""
    try:
        plistlib.loads(data)
        return False
    except Exception:
        pass
    try:
        dom = xml.dom.minidom.parseString(data)
    except xml.parsers.expat.ExpatError:
        return True
    except Exception:
        return False
    root = dom.documentElement
    if root is None or root.tagName != "plist":
        return True
    kids = [k for k in root.childNodes if k.nodeType == k.ELEMENT_NODE]
    if len(kids) != 1:
        return True
    # structurally a plist, but plistlib rejected it (bad integer / date / base64 ...): a *value* error, not the
    # syntactic corruption the property quantifies over -> not kept
    return not _plist_struct_ok(kids[0])


REJECTS = {"json": _rejects_json, "json5": _rejects_json5, "yaml": _rejects_yaml, "xml": _rejects_xml,
           "html": _rejects_xml, "plist": _rejects_plist}


# ---------------------------------------------------------------------------------------------- fault model
def apply_fault(data: bytes, f) -> bytes:
    k = f["kind"]
    if k == "torn":
        return data[:f["at"]]
    if k == "lost_tail":
        blk = f["block"]
        if blk == 0:
            i = data.rfind(b"\n", 0, max(0, len(data) - 1))
            return data[:i + 1] if i >= 0 else b""
        return data[:(max(0, len(data) - 1) // blk) * blk]
    if k == "zero_fill":
        return data[:f["at"]] + b"\0" * (len(data) - f["at"])
    if k == "bitflip":
        at = f["at"] % max(1, len(data))
        if not data:
            return data
        return data[:at] + bytes([data[at] ^ (1 << f["bit"])]) + data[at + 1:]
    if k == "garbage_block":     # a bad block: 16 bytes of 0xFF in place of the stored content
        at = (f["at"] // 16) * 16
        return data[:at] + b"\xff" * min(16, len(data) - at) + data[at + 16:]
    if k == "swap":              # two adjacent bytes stored in the wrong order
        at = f["at"]
        if at + 1 >= len(data):
            return data
        return data[:at] + data[at + 1:at + 2] + data[at:at + 1] + data[at + 2:]
    if k == "dup_block":         # a block written twice (a retried write that was not idempotent)
        at, n = f["at"], f["n"]
        return data[:at + n] + data[at:at + n] + data[at + n:]
    if k == "drop":
        return data[:f["at"]] + data[f["at"] + 1:]
    if k == "dup":
        return data[:f["at"] + 1] + data[f["at"]:f["at"] + 1] + data[f["at"] + 1:]
    if k == "insert":
        return data[:f["at"]] + f["ch"].encode() + data[f["at"]:]
    if k == "drop_tag":
        return data[:f["at"]] + data[f["end"]:]
    if k == "dup_tag":
        return data[:f["end"]] + data[f["at"]:f["end"]] + data[f["end"]:]
    if k == "seq":
        for g in f["faults"]:
            data = apply_fault(data, g)
        return data
    raise ValueError(k)


def _closing_tags(data: bytes):
    out = []
    i = 0
    while True:
        i = data.find(b"</", i)
        if i < 0:
            return out
        j = data.find(b">", i)
        if j < 0:
            return out
        out.append((i, j + 1))
        i = j + 1


class C20:
    ID = "C20"
    LEVEL = "fault_enumeration"
    HANG_IS_VIOLATION = False   # a wall-clock watchdog on a loaded machine is not a verdict about graphtage
    EVAL_COUNTER = "evaluations"
    DETERMINISM_PROBE_RUNS = 2
    MAX_OOD_FRACTION = 0.5      # more than that: the check cannot see (harness error), it does not "hold"
    TIERS = {
        "quick": {"runs": 420, "budget_s": 170, "chunk": 4, "run_timeout_s": 400},
        "thorough": {"runs": 9000, "budget_s": 1700, "chunk": 8, "run_timeout_s": 400},
    }
    RULE = ("one run = one generated valid document of one format (JSON, JSON5, YAML, XML, HTML, plist) with: a torn "
            "write at EVERY byte offset; lost tail at 16/64/512-byte blocks and at the last newline; zero-filled tail; "
            "flipped bits; 16-byte garbage blocks; swapped adjacent bytes; duplicated blocks; every delimiter dropped / duplicated (capped at 48 positions, sampled beyond); inserted "
            "unbalanced bracket or tag character; dropped / duplicated closing tag; compositions of two faults; every 12th run per format (not JSON5) uses a 70-300 KB document instead, with faults sampled "
            "at the tail, at 64 KiB boundaries and at random offsets. Each "
            "fault carries its own configuration: file position (first/second), type spelling (extension / "
            "--from-<type> / --from-mime), status flags (default / --no-status / --quiet); the clock profile is per "
            "run. evaluations = corrupted files handed to main(). non-trivial = kept cases: every independent parser "
            "of the format rejected the bytes; distinct by hash of (format, corrupted bytes, position, spelling, status).")
    ASSUMPTIONS = [
        "independent parsers decide validity: stdlib json on strictly decoded UTF-8; json5 (the only JSON5 parser "
        "available - same library graphtage uses); PyYAML pure-Python AND C safe loaders; pyexpat for XML and HTML "
        "(graphtage reads HTML with an XML parser, so 'valid HTML' means well-formed XHTML here); plistlib AND a "
        "structural validator over minidom",
        "only content faults are injected; I/O errors (ENOENT, EIO, EACCES) are outside the property",
        "in-process main() with simulated streams stands for the command; a seeded sample of cases is re-executed "
        "as a real `python -m graphtage` subprocess and must agree",
        "CSV and pickle are excluded by the property itself",
    ]
    COMPONENTS = {"real": ["graphtage.__main__.main", "all graphtage loaders (json, json5, yaml, xml, html, plist)",
                           "third-party parsers (json5, libyaml, expat, plistlib)", "open()/read() syscalls on a "
                           "private scratch directory"],
                  "simulated": ["stored file content (fault model)", "stdout / stderr (SimStream, fd 1 / 2)",
                                "wall clock (tqdm.std.time)", "terminal geometry"],
                  "stubbed": ["tqdm monitor thread (disabled)"]}
    PROBES = ["bar_rendered_before_error", "first_position", "second_position", "spelling_flag", "spelling_mime",
              "status_quiet", "multibyte_char_torn", "fresh_process_validated", "large_document"]

    # ------------------------------------------------------------------ generation
    def gen_case(self, seed, tier, index):
        st = Streams(seed)
        w, fs, env = st["workload"], st["faults"], st["env"]
        fmt = FORMATS[index % len(FORMATS)]
        if (index // len(FORMATS)) % 12 == 11 and fmt != "json5":   # (the pure-Python json5 parser needs ~10 s per 100 KB)
            return self._gen_large_case(st, fmt)
        text, other = self._gen_doc(w, fmt), self._gen_doc(w, fmt)
        enc = "utf-8"
        if fmt in ("xml", "html"):
            # documents in another legal encoding (declared, resp. with a byte-order mark): what the parser decodes
            # by itself is not UTF-8 for anything else that reads the file.  A stream of its own keeps earlier cases.
            es = st["encoding"]
            r = es.random()
            if r < 0.3:
                cand = "iso-8859-1" if r < 0.2 else "utf-16"
                body = text.split("?>", 1)[1].lstrip("\n") if text.startswith("<?xml") else text
                t2 = f'<?xml version="1.0" encoding="{cand.upper()}"?>\n<!-- caf\xe9 \xfc\xdf -->\n' + body
                try:
                    t2.encode(cand)
                    text, enc = t2, cand
                except UnicodeEncodeError:
                    pass
        data = text.encode(enc)

        def cfg():
            return {"pos": fs.choice([1, 2]),
                    "spell": fs.choice(["ext", "ext", "flag", "mime"]),
                    "status": fs.choice(["default", "default", "no-status", "quiet"])}
        faults = []
        for at in range(len(data)):
            faults.append(dict(kind="torn", at=at, **cfg()))
        for blk in (0, 16, 64, 512):
            faults.append(dict(kind="lost_tail", block=blk, **cfg()))
        for _ in range(4):
            faults.append(dict(kind="zero_fill", at=fs.randrange(max(1, len(data))), **cfg()))
        for _ in range(12):
            faults.append(dict(kind="bitflip", at=fs.randrange(max(1, len(data))), bit=fs.randrange(8), **cfg()))
        for _ in range(4):
            faults.append(dict(kind="garbage_block", at=fs.randrange(max(1, len(data))), **cfg()))
        for _ in range(8):
            faults.append(dict(kind="swap", at=fs.randrange(max(1, len(data))), **cfg()))
        for _ in range(6):
            faults.append(dict(kind="dup_block", at=fs.randrange(max(1, len(data))), n=fs.choice([1, 4, 16, 64]), **cfg()))
        dpos = [i for i, ch in enumerate(data) if ch in DELIMS[fmt]]
        if len(dpos) > 48:
            dpos = sorted(fs.sample(dpos, 48))
        for i in dpos:
            faults.append(dict(kind="drop", at=i, **cfg()))
            faults.append(dict(kind="dup", at=i, **cfg()))
        openers = {"json": "[]{}\"", "json5": "[]{}\"'", "yaml": "[]{}\"'", "xml": "<>", "html": "<>", "plist": "<>"}[fmt]
        for _ in range(10):
            faults.append(dict(kind="insert", at=fs.randrange(len(data) + 1), ch=fs.choice(openers), **cfg()))
        if fmt in ("xml", "html", "plist"):
            for (i, j) in _closing_tags(data)[:24]:
                faults.append(dict(kind="drop_tag", at=i, end=j, **cfg()))
                faults.append(dict(kind="dup_tag", at=i, end=j, **cfg()))
        simple = [f for f in faults if f["kind"] != "torn"]
        for _ in range(12):
            a, b = fs.choice(simple), fs.choice(faults)
            g1 = {k: v for k, v in a.items() if k not in ("pos", "spell", "status")}
            g2 = {k: v for k, v in b.items() if k not in ("pos", "spell", "status")}
            faults.append(dict(kind="seq", faults=[g2, g1] if g2["kind"] == "torn" else [g1, g2], **cfg()))
        fresh = sorted(env.sample(range(len(faults)), 3)) if env.random() < (0.25 if tier == "quick" else 0.1) else []
        return {"fmt": fmt, "text": text, "other": other, "faults": faults, "enc": enc,
                "clock": env.choice(["frozen", "1ms", "0.2s", "3s", "3s", "1h"]), "fresh": fresh}

    def _gen_large_case(self, st, fmt):
        """A document of 70-300 KB (beyond any plausible chunk / buffer size) with faults sampled near the end, at
        block boundaries and at random offsets - enumeration of every offset is not affordable at this size."""
        w, fs, env = st["workload"], st["faults"], st["env"]
        n = {"xml": [2200, 4000], "html": [2200, 4000], "json": [1000, 2000], "yaml": [1600, 1700],
             "plist": [700, 1400]}[fmt][w.randrange(2)]
        if fmt in ("xml", "html"):
            tag = "div" if fmt == "html" else "item"
            body = "".join(f'<{tag} id="{i}">text {i} é</{tag}>\n' for i in range(n))
            root = "html" if fmt == "html" else "root"
            text = f"<{root}>\n{body}</{root}>\n"
        elif fmt in ("json", "json5"):
            text = json.dumps([{"id": i, "name": f"item {i} é", "tags": ["a", "b"]} for i in range(n)], ensure_ascii=False,
                              indent=1)
        elif fmt == "yaml":
            text = "".join(f"- id: {i}\n  name: item {i} é\n  tags: [a, b]\n" for i in range(n))
        else:
            text = plistlib.dumps([{"id": i, "name": f"item {i} é"} for i in range(n)], fmt=plistlib.FMT_XML).decode()
        data = text.encode("utf-8")
        ln = len(data)

        def cfg():
            return {"pos": fs.choice([1, 2]), "spell": fs.choice(["ext", "ext", "flag", "mime"]),
                    "status": fs.choice(["default", "no-status", "quiet"])}
        faults = []
        offs = set()
        for k in range(1, 40):
            offs.add(ln - k)                                   # the tail: missing final closers / tags
        for b in range(65536, ln, 65536):
            offs.update([b - 1, b, b + 1, b + 17])             # buffer / chunk boundaries
        for _ in range(16):
            offs.add(fs.randrange(1, ln))
        for at in sorted(o for o in offs if 0 < o < ln):
            faults.append(dict(kind="torn", at=at, **cfg()))
        for blk in (0, 512, 4096, 65536):
            faults.append(dict(kind="lost_tail", block=blk, **cfg()))
        for _ in range(3):
            faults.append(dict(kind="zero_fill", at=ln - fs.randrange(1, 2000), **cfg()))
        for _ in range(4):
            faults.append(dict(kind="garbage_block", at=fs.randrange(ln), **cfg()))
        for _ in range(6):
            faults.append(dict(kind="bitflip", at=fs.randrange(ln), bit=fs.randrange(8), **cfg()))
        if fmt in ("xml", "html", "plist"):
            tags = _closing_tags(data)
            for (i, j) in tags[-3:] + [tags[len(tags) // 2]]:
                faults.append(dict(kind="drop_tag", at=i, end=j, **cfg()))
                faults.append(dict(kind="dup_tag", at=i, end=j, **cfg()))
        else:
            dpos = [i for i in range(max(0, ln - 60), ln) if data[i] in DELIMS[fmt]]
            for i in dpos[-6:]:
                faults.append(dict(kind="drop", at=i, **cfg()))
                faults.append(dict(kind="dup", at=i, **cfg()))
        small = {"xml": "<root />", "html": "<html />", "json": "[1]", "yaml": "- 1\n",
                 "plist": plistlib.dumps([1], fmt=plistlib.FMT_XML).decode()}[fmt]
        if fmt == "yaml":     # the pure-Python reference loader needs ~0.5 s per 70 KB: a third of the faults
            faults = [f for i, f in enumerate(faults) if i % 3 == 0]
        return {"fmt": fmt, "text": text, "other": small, "faults": faults, "large": True,
                "clock": env.choice(["frozen", "3s"]), "fresh": sorted(env.sample(range(len(faults)), min(2, len(faults))))}

    def _gen_doc(self, w, fmt):
        if w.random() < 0.25:
            return gen.RICH[fmt](w)        # more of the format's syntax: comments, CDATA, escapes, anchors, blobs
        if fmt == "json":
            return gen.to_json(w, gen.gen_container(w, 3))
        if fmt == "json5":
            return gen.to_json5(w, gen.gen_container(w, 3))
        if fmt == "yaml":
            return gen.to_yaml(w, gen.gen_container(w, 3))
        if fmt == "plist":
            return gen.to_plist(w, gen.plist_value(w, 2))
        spec = gen.gen_xml(w, 2, html=(fmt == "html"))
        return gen.xml_text(spec, declaration=w.random() < 0.4, comment=w.random() < 0.3)

    # ------------------------------------------------------------------ one invocation of the command
    @staticmethod
    def _argv(fmt, f, bad_path, ok_path):
        argv = ["graphtage"]
        if f["status"] == "no-status":
            argv.append("--no-status")
        elif f["status"] == "quiet":
            argv.append("--quiet")
        side = "from" if f["pos"] == 1 else "to"
        if f["spell"] == "flag" or (f["spell"] == "mime" and f["pos"] == 2):
            # (--to-mime is not usable on the pinned tree; an untyped second file would leave the premise of the
            #  property - "not valid for ITS TYPE" - without a type)
            argv.append(f"--{side}-{fmt}")
        elif f["spell"] == "mime":
            argv += ["--from-mime", MIME[fmt]]
        argv += [bad_path, ok_path] if f["pos"] == 1 else [ok_path, bad_path]
        return argv

    @staticmethod
    def _hygiene():
        """Independent runs share a worker process: put back what a previous invocation may have left behind."""
        SEAMS.reinstall_streams()
        try:
            tqdm.tqdm._instances.clear()
        except Exception:
            pass
        # a fresh process has no logging configuration yet: main()'s logging.basicConfig() must take effect on
        # every call (it is a no-op once the root logger has a handler), else --quiet / --log-level of a later
        # invocation would be judged under the first invocation's configuration
        root = logging.getLogger()
        for h in list(root.handlers):
            root.removeHandler(h)
        root.setLevel(logging.WARNING)
        for name, lg in list(logging.Logger.manager.loggerDict.items()):
            if name.split(".")[0] == "graphtage" and isinstance(lg, logging.Logger):
                for h in list(lg.handlers):
                    lg.removeHandler(h)
                lg.setLevel(logging.NOTSET)
                lg.disabled = False
                lg.propagate = True
        SEAMS.out.drop()
        SEAMS.err.drop()

    def _invoke(self, argv):
        self._hygiene()
        rc, extra_err, exc = command(argv)
        out, err = SEAMS.out.since(0), SEAMS.err.since(0) + extra_err
        return rc, exc, out, err

    def run_case(self, case):
        log = EventLog()
        fmt = case["fmt"]
        data = case["text"].encode(case.get("enc", "utf-8"))
        counters = {}
        nts = []

        def bump(k, n=1):
            counters[k] = counters.get(k, 0) + n
        SEAMS.clock.configure(case["clock"])
        t_start = SEAMS.clock.elapsed
        d = tempfile.mkdtemp(prefix="g-", dir="/dev/shm" if os.path.isdir("/dev/shm") else None)
        viol = None
        rejudged_clean = 0
        try:
            ok_ext = os.path.join(d, "ok" + EXT[fmt])
            with open(ok_ext, "wb") as fh:
                fh.write(case["other"].encode("utf-8"))
            if case.get("large"):
                bump("probe.large_document")
            if case.get("enc", "utf-8") != "utf-8":
                bump("probe.non_utf8_document")
            # baseline: both files valid -> the command must work at all, else this document is outside C20
            base_from = os.path.join(d, "orig" + EXT[fmt])
            with open(base_from, "wb") as fh:
                fh.write(data)
            # (a large document is compared with itself: equal trees, no expensive diff)
            rc, exc, out, err = self._invoke(["graphtage", "--no-status", base_from,
                                              base_from if case.get("large") else ok_ext])
            if exc is not None or rc not in (0, 1) or not out.strip() or REJECTS[fmt](data) or \
                    REJECTS[fmt](case["other"].encode("utf-8")):
                # graphtage cannot load one of the two *valid* documents (e.g. a plist <date>): not C20's subject
                return result(ood=True, digest="ood", counters={"ood.baseline_failed": 1})
            for fi, f in enumerate(case["faults"]):
                bad = apply_fault(data, f)
                kind = f["kind"]
                if bad == data or not REJECTS[fmt](bad):
                    bump("still_valid." + kind)
                    log.add(fi, kind, "valid")
                    continue
                bump("fault." + kind)
                name = f"bad{fi}" + (EXT[fmt] if f["spell"] == "ext" else ".dat")
                bad_path = os.path.join(d, name)
                with open(bad_path, "wb") as fh:
                    fh.write(bad)
                # the valid companion needs a recognisable type too
                argv = self._argv(fmt, f, bad_path, ok_ext)
                rc, exc, out, err = self._invoke(argv)
                os.unlink(bad_path)
                bump("evaluations")
                bump("probe.first_position" if f["pos"] == 1 else "probe.second_position")
                if f["spell"] == "flag":
                    bump("probe.spelling_flag")
                if f["spell"] == "mime" and f["pos"] == 1:
                    bump("probe.spelling_mime")
                if f["status"] == "quiet":
                    bump("probe.status_quiet")
                if "it/s]" in err or "s/it]" in err:
                    bump("probe.bar_rendered_before_error")
                if kind == "torn":
                    try:
                        bad.decode("utf-8")
                    except UnicodeDecodeError:
                        bump("probe.multibyte_char_torn")
                nts.append(core.h64(fmt, bad, f["pos"], f["spell"], f["status"]))
                problem = self._judge(rc, exc, out, err, name, bad_path, ok_ext)
                log.add(fi, kind, f["pos"], f["spell"], f["status"], rc, type(exc).__name__ if exc else "-",
                        problem[0] if problem else "ok")
                if (fi in case.get("fresh", ()) or problem is not None) and rejudged_clean < 12:
                    # sampled cases, and in-process alarms, are decided by the real command.  If a dozen in-process
                    # alarms of one run all turned out clean, the stand-in is systematically off for this tree; the
                    # rest are counted, not re-judged (a real process costs a second, a run has hundreds of cases).
                    fresh_problem = self._fresh_judge(fmt, f, bad, case)
                    if problem is not None and fresh_problem is None:
                        rejudged_clean += 1
                    bump("probe.fresh_process_validated")
                    if problem is not None and fresh_problem is None:
                        bump("inprocess_only_alarm." + problem[0])   # harness imprecision, not a verdict
                        log.add(fi, "in-process alarm not confirmed by the real command", problem[0])
                    problem = fresh_problem
                elif problem is not None:
                    bump("inprocess_only_alarm.not_rejudged")
                    problem = None
                if problem and viol is None:
                    k, site_tail, detail = problem
                    viol = {"kind": k, "site": f"{fmt}/{site_tail}",
                            "detail": f"{detail}\nargv={argv}\nfault={f}\ncorrupted bytes={bad[:200]!r}"}
                    viol_case = dict(case, faults=[f], fresh=[0])
                    break
        finally:
            shutil.rmtree(d, ignore_errors=True)
            self._hygiene()
        sim_s = SEAMS.clock.elapsed - t_start
        if viol is not None:
            r = result(violation=viol, digest=log.digest(), counters=counters, sim_s=sim_s, trace=log.tail[-40:])
            r["case"] = viol_case
            return r
        r = result(digest=log.digest(), nt=None, counters=counters, sim_s=sim_s, trace=log.tail[:40])
        r["nts"] = nts
        r["nt"] = nts[0] if nts else None
        return r

    @staticmethod
    def _judge(rc, exc, out, err, name, bad_path, ok_path):
        """The property, applied to one execution of the command (in-process stand-in or real process alike)."""
        if exc is not None:
            return ("uncaught-exception", core.graphtage_site(exc), core.short_tb(exc, 8))
        if not isinstance(rc, int) or isinstance(rc, bool) or rc == 0:
            return ("zero-exit", "exit-status", f"the command exited with status {rc!r} for a syntactically invalid "
                                                f"file; stderr={err[-300:]!r}")
        if out.strip():
            return ("stdout-not-empty", "stdout", f"stdout is not empty: {out[:300]!r}")
        # A rendered progress bar names the file too ("<desc with path>:  50%|###   | 1/2 [00:01<00:01, 1.0it/s]") and
        # is written without a newline in front of the message.  Remove exactly the rendered bars - from the path
        # through the closing bracket of the bar - and nothing else, whatever the wording around them is.
        cleaned = err
        for pth in (bad_path, ok_path):
            cleaned = re.sub(re.escape(pth) + r":\s+\d+%\|[^\r\n]*?\| *\d+/\d+ \[[^\]\r\n]*\]", "", cleaned)
        if name not in cleaned:
            return ("stderr-no-filename", "stderr", f"stderr does not name {name}: {err[-400:]!r}")
        return None

    def _fresh_judge(self, fmt, f, bad, case):
        """The same corrupted file through a REAL `python -m graphtage` process, judged by the same oracle.  The real
        command is the authority; the in-process call is its fast stand-in."""
        d = tempfile.mkdtemp(prefix="gf-", dir="/dev/shm" if os.path.isdir("/dev/shm") else None)
        try:
            ok = os.path.join(d, "ok" + EXT[fmt])
            with open(ok, "wb") as fh:
                fh.write(case["other"].encode("utf-8"))
            name = "badf" + (EXT[fmt] if f["spell"] == "ext" else ".dat")
            bp = os.path.join(d, name)
            with open(bp, "wb") as fh:
                fh.write(bad)
            argv = self._argv(fmt, f, bp, ok)
            env = dict(os.environ, PYTHONPATH=core.REPO, PYTHONHASHSEED="0")
            p = subprocess.run([sys.executable, "-c", _LAUNCHER] + argv, capture_output=True, env=env,
                               timeout=300, cwd=d)
            err = p.stderr.decode("utf-8", "replace")
            if _UNCAUGHT in err:
                return ("uncaught-exception", "fresh-process", err.replace(_UNCAUGHT, "")[-800:])
            fresh = self._judge(p.returncode, None, p.stdout.decode("utf-8", "replace"), err, name, bp, ok)
            if fresh is not None:
                return (fresh[0], fresh[1] + "(fresh-process)", fresh[2])
            return None
        finally:
            shutil.rmtree(d, ignore_errors=True)

    # ------------------------------------------------------------------ shrinking
    def shrink_candidates(self, case):
        if len(case["faults"]) > 1:
            for fl in ddmin_list(case["faults"]):
                yield dict(case, faults=fl, fresh=[])
        f = case["faults"][0] if case["faults"] else None
        if f is not None:
            for k, simple in (("status", "no-status"), ("spell", "ext"), ("pos", 1)):
                if f.get(k) != simple:
                    yield dict(case, faults=[dict(f, **{k: simple})], fresh=[])
            if f["kind"] == "seq":
                for g in f["faults"]:
                    yield dict(case, faults=[dict(g, pos=f["pos"], spell=f["spell"], status=f["status"])], fresh=[])
        if case["clock"] != "frozen":
            yield dict(case, clock="frozen")
        if len(case["other"]) > 4:
            simple_other = {"json": "[]", "json5": "[]", "yaml": "[]\n", "xml": "<a />", "html": "<a />"}.get(case["fmt"])
            if simple_other and case["other"] != simple_other:
                yield dict(case, other=simple_other)

    def evidence_extra(self, tier, counters):
        kept = {k[len("fault."):]: v for k, v in counters.items() if k.startswith("fault.")}
        still = {k[len("still_valid."):]: v for k, v in counters.items() if k.startswith("still_valid.")}
        return {"cases_handed_to_main": counters.get("evaluations", 0), "kept_by_fault_kind": kept,
                "still_valid_skipped_by_fault_kind": still,
                "torn_write_offsets": "every byte offset of every generated document (exhaustive per document)"}


CHECK = C20()
