"""C07 - Diffing is a pure, deterministic function of its inputs.

Depends on schedules in the property's own sense: the string-hash seed, the address layout / allocation order, and
the history of earlier calls in the same process; plus cancellation for the purity clause.

Part A (across processes): one explicit history of CLI-style calls is executed by child interpreters started with
different PYTHONHASHSEED values, with ASLR off (setarch -R) or on, and with a seeded heap shift; every call's exit
status, exception class and stdout bytes must be identical in all children.  stderr is excluded (progress text is
time-dependent by design).
Part B (repeated calls in one process): inside each child every item is executed twice, at two positions of a seeded
shuffle, with library-level diff/print calls (own Printer, colour on/off), quiet flips and clock profiles interleaved;
both executions must agree with each other (and, via Part A, with every other child).  The harness never resets
anything graphtage mutated inside a history (see gsim/worker.py).  Some runs add a soak of many cheap colour calls.
Part C (inputs are not altered): fingerprint both trees, run a comparison (diff / get_all_edits / edits+drive, quiet
or not), optionally CANCELLED by a KeyboardInterrupt at the n-th clock read, stream write or engine step, or at an
arbitrary function entry inside graphtage (sys.settrace 'call' events - the points where CPython really delivers
asynchronous exceptions; the point is a fraction of the comparison's own length); fingerprints
must be unchanged and the next complete comparison must render byte-identically to the reference.
"""
import json
import os
import platform
import shutil
import subprocess
import sys
import tempfile

from .. import core, gen, sched
from ..core import EventLog, Streams, Violation
from ..driver import result, ddmin_list
from ..seams import SEAMS, Cancel, NO_CANCEL, LineCancel
from .c05 import hygiene, render, P0

FORMATS = ["json", "json", "json5", "yaml", "yaml", "plist", "xml", "html", "csv"]
EXT = {"json": ".json", "json5": ".json5", "yaml": ".yaml", "xml": ".xml", "html": ".html", "plist": ".plist",
       "csv": ".csv"}
ARCH = platform.machine()
GRAPHTAGE_DIR = os.path.join(core.REPO, "graphtage") + os.sep
HAVE_SETARCH = shutil.which("setarch") is not None


def gen_values(w):
    c = w.random()
    if c < 0.25:
        return gen.gen_renamed_dicts(w)
    if c < 0.40:
        return gen.gen_config_pair(w)      # multi-line strings (block literals) and nested single-line strings
    a = gen.gen_container(w, w.choice([1, 2, 2, 3]), "json", w.choice([2, 3, 4]))
    b = gen.mutate(w, a, intensity=w.choice([1, 2, 3])) if w.random() < 0.85 else gen.gen_container(w, 2)
    return a, b


def gen_texts(w, fmt, values=None):
    if fmt in ("json", "json5", "yaml"):
        a, b = values if values is not None else gen_values(w)
        ser = {"json": gen.to_json, "json5": gen.to_json5, "yaml": gen.to_yaml}[fmt]
        return ser(w, a), ser(w, b)
    if fmt == "plist":
        a = gen.plist_value(w, 2)
        b = gen._plist_clean(gen.mutate(w, a, "plist", intensity=2))
        return gen.to_plist(w, a), gen.to_plist(w, b)
    if fmt in ("xml", "html"):
        a = gen.gen_xml(w, w.choice([1, 2]), html=(fmt == "html"))
        b = gen.mutate_xml(w, a)
        return gen.xml_text(a), gen.xml_text(b)
    rows = [[w.choice(["a", "b", "ab", "1", "x y", "", "a\u2028b", "f\x0cf"]) for _ in range(w.randint(1, 3))]
            for _ in range(w.randint(1, 4))]
    rows2 = [list(r) for r in rows]
    if rows2 and w.random() < 0.8:
        r = w.randrange(len(rows2))
        rows2[r][w.randrange(len(rows2[r]))] = w.choice(["z", "ab", "2"])
    if w.random() < 0.4:
        rows2.append(["n", "ew"])
    return ("\n".join(",".join(r) for r in rows) + "\n"), ("\n".join(",".join(r) for r in rows2) + "\n")


def gen_opts(w):
    o = []
    o += w.choice([[], [], ["-k"], ["-k"], ["-ds", "none"], ["-ds", "match"], ["-ds", "auto"]])
    o += w.choice([[], [], [], ["-l"], ["-ll"]])
    o += w.choice([[], [], [], ["-e"], ["-d"]])
    if w.random() < 0.15:
        o += ["--format", w.choice(["json", "yaml", "xml", "csv", "plist", "json5", "html"])]
    if w.random() < 0.1:
        o += ["--html"]
    o += w.choice([[], [], ["-c"], ["-c"], ["--no-color"]])
    o += w.choice([[], [], ["-j"], ["-jl"], ["-jd"]])
    o += w.choice([[], ["--no-status"], ["--quiet"]])
    return o


class StepCancel:
    """Cancellation at the n-th engine step: plugs into the class-level tighten_bounds wrappers."""

    def __init__(self, cancel):
        self.cancel = cancel

    def around(self, obj, orig):
        self.cancel.tick("step")
        return orig(obj)


class C07:
    ID = "C07"
    LEVEL = "exploration"
    HANG_IS_VIOLATION = False
    TIERS = {
        "quick": {"runs": 88, "budget_s": 170, "chunk": 1, "run_timeout_s": 300},
        "thorough": {"runs": 1800, "budget_s": 1700, "chunk": 2, "run_timeout_s": 300},
    }
    EVAL_COUNTER = "evaluations"
    DETERMINISM_PROBE_RUNS = 1
    RULE = ("one run = 24 items (two generated documents in one of JSON/JSON5/YAML/plist/XML/HTML/CSV + options drawn "
            "from the CLI surface: dict strategy incl. -k, -l/-ll, -e/-d/full, --format, --html, colour flags, "
            "-j/-jl/-jd, status flags) executed twice each at seeded positions of one in-process history with "
            "interleaved library calls, in 3 child interpreters (hash seeds 0, 1, seeded; ASLR off/on; heap shift); "
            "plus 30 purity sessions with seeded cancellation. evaluations = main() executions + purity comparisons. "
            "non-trivial: item whose documents differ and whose stdout is non-empty; distinct by hash of "
            "(format, documents, options).")
    ASSUMPTIONS = [
        "stderr is excluded from the comparison (progress text is time-dependent by design)",
        "an item that fails identically everywhere (same status, same output, same exception class) is not a C07 "
        "violation",
        "in-process main() with simulated streams stands for `python -m graphtage`; the child interpreters are real "
        "fresh processes, the hash seed and ASLR are controlled from outside",
        "scipy / libyaml / expat run real and uninstrumented; their determinism is covered only as a black box",
        "a process has one standard input: at most one item per in-process history reads a document from `-`, and each "
        "of its executions is handed the same bytes",
    ]
    COMPONENTS = {"real": ["graphtage.__main__.main, all loaders and formatters, the whole engine", "child "
                           "interpreters (real processes)", "colorama, tqdm, scipy, PyYAML, expat"],
                  "simulated": ["hash seed (PYTHONHASHSEED per child)", "address layout (setarch -R, heap shift)",
                                "position in an in-process call history", "clock", "stdout/stderr",
                                "cancellation (KeyboardInterrupt at the n-th clock read / stream write / engine step)"],
                  "stubbed": ["tqdm monitor thread (disabled)"]}
    PROBES = ["children_started", "aslr_off_child", "heap_shift_child", "repeat_in_process", "colour_item",
              "none_strategy_item", "soak_history", "cancel_fired_clock", "cancel_fired_write", "cancel_fired_step", "cancel_fired_line",
              "purity_sessions", "lib_call_interleaved", "stdin_item", "edited_tree_as_input"]

    # ------------------------------------------------------------------ generation
    def gen_case(self, seed, tier, index):
        st = Streams(seed)
        w, sc, env, fs = st["workload"], st["schedule"], st["env"], st["faults"]
        items = []
        jvals = []   # (values, opts) of earlier JSON-family items: sources for type-twins
        for _ in range(24):
            fmt = w.choice(FORMATS)
            if fmt in ("json", "json5", "yaml"):
                if jvals and w.random() < 0.3:
                    (va, vb), opts = w.choice(jvals)
                    vals = (gen.type_twin(w, va), gen.type_twin(w, vb))
                    opts = list(opts) if w.random() < 0.7 else gen_opts(w)
                else:
                    vals, opts = gen_values(w), gen_opts(w)
                    jvals.append((vals, opts))
                a, b = gen_texts(w, fmt, vals)
            else:
                a, b = gen_texts(w, fmt)
                opts = gen_opts(w)
            items.append({"fmt": fmt, "a": a, "b": b, "opts": opts, "stdin": None})
        # ONE item per history reads one of its documents from `-`: a process has a single standard input, so every
        # call of the history that reads stdin is handed the same bytes (a process-wide memo of stdin is harmless)
        if items and w.random() < 0.8:
            items[w.randrange(len(items))]["stdin"] = w.choice(["a", "b"])
        lib_docs = [sched.gen_workload(w, families=("json", "json", "xml")) for _ in range(2)]
        hist = [{"kind": "main", "item": i, "clock": sc.choice(["frozen", "1ms", "3s"])} for i in range(len(items))] * 2
        hist = [dict(h) for h in hist]
        for _ in range(sc.randint(2, 6)):
            hist.append({"kind": "lib", "doc": sc.randrange(2), "ansi": sc.random() < 0.5, "quiet": sc.random() < 0.3,
                         "clock": sc.choice(["frozen", "3s"])})
        for _ in range(sc.choice([0, 0, 1, 2])):
            hist.append({"kind": "quiet", "value": sc.random() < 0.5})
        sc.shuffle(hist)
        soak = None
        if sc.random() < (0.12 if tier == "quick" else 0.2):
            soak = {"n": sc.choice([300, 800, 1200]), "opts": sc.choice([["-c"], ["-c", "-k"], ["-c", "-j"], []])}
        envs = [{"hashseed": 0, "aslr_off": True, "heap_shift": 0, "order": None},
                {"hashseed": 1, "aslr_off": True, "heap_shift": env.choice([0, 1000, 77777]),
                 "order": env.getrandbits(30)},
                {"hashseed": env.randrange(2, 1 << 30), "aslr_off": env.random() < 0.5,
                 "heap_shift": env.choice([0, 12345]), "order": env.getrandbits(30)}]
        purity = []
        for _ in range(30):
            seam = fs.choice([None, "clock", "write", "step", "step", "line", "line", "line", "line"])
            if seam is None:
                cancel = None
            elif seam == "line":
                # an arbitrary point: a fraction of the comparison's own length in executed graphtage lines,
                # biased towards the beginning (the copy phase of diff()) and the very end
                cancel = {"seam": "line", "frac": fs.choice([fs.random() * 0.15, fs.random() * 0.15, fs.random(),
                                                             fs.random(), 1.0 - fs.random() * 0.02])}
            else:
                cancel = {"seam": seam, "at": fs.choice([1, 2, 3, 5, 8, 13, 30])}
            purity.append({"wl": sched.gen_workload(w), "mode": fs.choice(["diff", "diff", "get_all_edits", "edits_drive"]),
                           "quiet": fs.random() < 0.4, "clock": fs.choice(["frozen", "0.2s", "3s"]),
                           "cancel": cancel,
                           # 0: two freshly built trees; 1 / 2: the first / second tree handed to the comparison is
                           # itself the RESULT of an earlier comparison (an edited, annotated tree)
                           "chain": fs.choice([0, 0, 0, 1, 2])})
        return {"items": items, "lib_docs": lib_docs, "history": hist, "envs": envs, "soak": soak, "purity": purity}

    # ------------------------------------------------------------------ children
    def _run_children(self, case, d, log, counters):
        items = []
        for i, it in enumerate(case["items"]):
            pa = os.path.join(d, f"a{i}{EXT[it['fmt']]}")
            pb = os.path.join(d, f"b{i}{EXT[it['fmt']]}")
            with open(pa, "w", encoding="utf-8") as f:
                f.write(it["a"])
            with open(pb, "w", encoding="utf-8") as f:
                f.write(it["b"])
            if it.get("stdin") == "a":
                items.append({"argv": list(it["opts"]) + [f"--from-{it['fmt']}", "-", pb], "stdin": it["a"]})
                counters["probe.stdin_item"] = counters.get("probe.stdin_item", 0) + 1
            elif it.get("stdin") == "b":
                items.append({"argv": list(it["opts"]) + [f"--to-{it['fmt']}", pa, "-"], "stdin": it["b"]})
                counters["probe.stdin_item"] = counters.get("probe.stdin_item", 0) + 1
            else:
                items.append({"argv": list(it["opts"]) + [pa, pb]})
        history = [dict(h) for h in case["history"]]
        if case.get("soak"):
            tiny_a, tiny_b = os.path.join(d, "sa.json"), os.path.join(d, "sb.json")
            with open(tiny_a, "w") as f:
                f.write('{"a": 1, "b": [1, 2]}')
            with open(tiny_b, "w") as f:
                f.write('{"a": 2, "c": [1, 3]}')
            items.append({"argv": list(case["soak"]["opts"]) + [tiny_a, tiny_b]})
            si = len(items) - 1
            history = history + [{"kind": "main", "item": si, "clock": "frozen"} for _ in range(case["soak"]["n"])]
            counters["probe.soak_history"] = 1
        outs = []
        for ci, e in enumerate(case["envs"]):
            # every child runs the same calls, but in its own order: what preceded a call differs between children,
            # so a result that depends on the earlier history of the process shows as a cross-child difference
            order = list(range(len(history)))
            if e.get("order") is not None:
                import random as _random
                _random.Random(e["order"]).shuffle(order)
            spec = {"items": items, "history": [dict(history[j], orig=j) for j in order], "lib_docs": case["lib_docs"]}
            spec_path = os.path.join(d, f"spec{ci}.json")
            with open(spec_path, "w") as f:
                json.dump(spec, f)
            out_path = os.path.join(d, f"out{ci}.json")
            cmd = [sys.executable, "-m", "gsim.worker", spec_path, out_path]
            if e.get("aslr_off") and HAVE_SETARCH:
                cmd = ["setarch", ARCH, "-R"] + cmd
                counters["probe.aslr_off_child"] = counters.get("probe.aslr_off_child", 0) + 1
            if e.get("heap_shift"):
                counters["probe.heap_shift_child"] = counters.get("probe.heap_shift_child", 0) + 1
            envv = dict(os.environ, PYTHONHASHSEED=str(e["hashseed"]), GSIM_HEAP_SHIFT=str(e.get("heap_shift", 0)),
                        PYTHONDONTWRITEBYTECODE="1", PYTHONUTF8="1", GSIM_REPO=core.REPO)
            try:
                p = subprocess.run(cmd, cwd=core.VERIF, env=envv, capture_output=True, timeout=280)
            except subprocess.TimeoutExpired:
                # a child that does not finish in time (a 1200-call soak on a machine at load 60) is a run that could
                # not be completed - counted as aborted like any other watchdog expiry, never a harness error
                raise core.RunTimeout()
            counters["probe.children_started"] = counters.get("probe.children_started", 0) + 1
            if p.returncode != 0 or not os.path.exists(out_path):
                raise RuntimeError(f"C07 child {ci} failed rc={p.returncode}: {p.stderr.decode('utf-8', 'replace')[-1500:]}")
            with open(out_path) as f:
                o = json.load(f)
            for rec in o["results"]:
                rec["pos"] = rec["i"]            # position in this child's order
                rec["i"] = order[rec["i"]]       # index into the canonical history
            outs.append(o)
        return items, history, outs

    @staticmethod
    def _outcome(rec):
        return (rec.get("rc"), rec.get("exc"), rec.get("stdout", ""), rec.get("lib_out"))

    def run_case(self, case):
        log = EventLog()
        counters = {}
        nts = []
        t0 = SEAMS.clock.elapsed

        def bump(k, n=1):
            counters[k] = counters.get(k, 0) + n
        d = tempfile.mkdtemp(prefix="g7-", dir="/dev/shm" if os.path.isdir("/dev/shm") else None)
        try:
            viol = None
            if case["history"] and case["envs"]:
                items, history, outs = self._run_children(case, d, log, counters)
                # ---- Part A + B: every execution of the same entry kind/item must have the same outcome everywhere
                by_key = {}
                for ci, o in enumerate(outs):
                    for rec in o["results"]:
                        h = history[rec["i"]]
                        if h["kind"] == "main":
                            key = ("main", h["item"])
                        elif h["kind"] == "lib":
                            key = ("lib", h["doc"], bool(h.get("ansi")), bool(h.get("quiet")))
                            bump("probe.lib_call_interleaved")
                        else:
                            continue
                        by_key.setdefault(key, []).append((ci, rec["pos"], self._outcome(rec), rec))
                        bump("evaluations")
                for key in sorted(by_key, key=repr):
                    execs = by_key[key]
                    first = execs[0]
                    log.add(key, first[2][0], first[2][1], core.digest_of(first[2][2]), len(execs))
                    if key[0] == "main" and key[1] < len(case["items"]):
                        it = case["items"][key[1]]
                        if it["a"] != it["b"] and first[2][2]:
                            nts.append(core.h64(it["fmt"], it["a"], it["b"], it["opts"]))
                        if "-c" in it["opts"]:
                            bump("probe.colour_item")
                        if "-k" in it["opts"] or ("-ds" in it["opts"] and "none" in it["opts"]):
                            bump("probe.none_strategy_item")
                        if sum(1 for e in execs if e[0] == 0) >= 2:
                            bump("probe.repeat_in_process")
                    for other in execs[1:]:
                        if other[2] != first[2] and viol is None:
                            same_child = other[0] == first[0]
                            if key[0] == "main":
                                it = case["items"][key[1]] if key[1] < len(case["items"]) else \
                                    {"fmt": "json", "opts": case["soak"]["opts"]}
                                site = f"{it['fmt']}/{' '.join(it['opts']) or 'default'}"
                            else:
                                site = f"lib/{'ansi' if key[2] else 'plain'}"
                            kind = "differs-in-process" if same_child else "differs-across-processes"
                            e0, e1 = case["envs"][first[0]], case["envs"][other[0]]
                            viol = {"kind": kind, "site": site, "detail": (
                                f"{key}: child {first[0]} (env {e0}) history position {first[1]} gave "
                                f"rc={first[2][0]} exc={first[2][1]} stdout[{len(first[2][2])}]={first[2][2][:400]!r}\n"
                                f"but child {other[0]} (env {e1}) history position {other[1]} gave rc={other[2][0]} "
                                f"exc={other[2][1]} {other[3].get('exc_msg', '')!r} stdout[{len(other[2][2])}]="
                                f"{other[2][2][:400]!r}")}
            # ---- Part C: purity with cancellation (in this process; independent sessions -> hygiene between them)
            if viol is None:
                for pi, ps in enumerate(case["purity"]):
                    bump("evaluations")
                    bump("probe.purity_sessions")
                    try:
                        self._purity(ps, log, counters)
                    except Violation as v:
                        viol = dict(v.as_dict(), detail=v.detail + f"\nsession={ps}")
                        r = result(violation=viol, digest=log.digest(), counters=counters, trace=log.tail[-60:])
                        r["case"] = dict(case, items=[], history=[], envs=[], soak=None, purity=[ps])
                        return r
                    finally:
                        SEAMS.clock.cancel = NO_CANCEL
                        SEAMS.err.cancel = NO_CANCEL
                        sched.MON = None
                        hygiene()
        finally:
            shutil.rmtree(d, ignore_errors=True)
        sim_s = SEAMS.clock.elapsed - t0
        if viol is not None:
            log.add("VIOLATION", viol["kind"], viol["site"])
            r = result(violation=viol, digest=log.digest(), counters=counters, sim_s=sim_s, trace=log.tail[-60:])
            r["case"] = dict(case, purity=[])
            return r
        r = result(digest=log.digest(), counters=counters, sim_s=sim_s, trace=log.tail[:60])
        r["nts"] = nts
        r["nt"] = nts[0] if nts else None
        return r

    # ------------------------------------------------------------------ Part C
    def _purity(self, ps, log, counters):
        wl = ps["wl"]
        hygiene()
        SEAMS.clock.configure("frozen")
        chain = [ps.get("chain", 0)]

        def build():
            """The two trees the comparison is given.  chain 1 / 2: one of them is the annotated result of an earlier,
            finished comparison of the same documents - 'the trees it was given' are then edited trees, and their
            annotations are part of what must not change."""
            a, b = sched.build_pair(wl)
            if chain[0]:
                a2, b2 = sched.build_pair(wl)
                try:
                    if chain[0] == 1:
                        a = a2.diff(b2)
                    else:
                        b = b2.diff(a2)
                except core.RunTimeout:
                    raise
                except Exception as e:
                    if "outside-graphtage" in core.graphtage_site(e):
                        raise
                    chain[0] = 0           # the earlier comparison itself fails: plain trees
                    a, b = sched.build_pair(wl)
                hygiene()
            return a, b
        f0, t0_ = build()
        if chain[0]:
            counters["probe.edited_tree_as_input"] = counters.get("probe.edited_tree_as_input", 0) + 1
        try:
            ref_text = render(wl["family"], f0.diff(t0_), False, False, True)
        except core.RunTimeout:
            raise
        except Exception as e:
            if "outside-graphtage" in core.graphtage_site(e):
                raise
            # the comparison fails without any cancellation: that failure is some other property's business, but
            # "never alters the trees it was given" still applies to a comparison that raises
            log.add("purity-ref-failed", core.graphtage_site(e))
            counters["purity_reference_failed"] = counters.get("purity_reference_failed", 0) + 1
            ref_text = None
        def compare(a, b):
            if ps["mode"] == "diff":
                a.diff(b)
            elif ps["mode"] == "get_all_edits":
                for e in a.get_all_edits(b):
                    e.bounds()
            else:
                e = a.edits(b)
                while e.valid and not e.is_complete() and e.tighten_bounds():
                    e.bounds()
        line_cancel = None
        if ps["cancel"] and ps["cancel"]["seam"] == "line":
            # dry run on fresh trees: how many cancellation points does this comparison have?
            hygiene()
            P0.quiet = bool(ps["quiet"])
            SEAMS.clock.configure(ps["clock"])
            fd, td = build()
            P0.quiet = bool(ps["quiet"])
            SEAMS.clock.configure(ps["clock"])
            counter = LineCancel(GRAPHTAGE_DIR)
            try:
                with counter:
                    compare(fd, td)
            except core.RunTimeout:
                raise
            except Exception as e:
                if "outside-graphtage" in core.graphtage_site(e):
                    raise
            line_cancel = LineCancel(GRAPHTAGE_DIR, at=max(1, int(ps["cancel"]["frac"] * counter.count)))
        f, t = build()
        fp0 = (sched.fingerprint(f), sched.fingerprint(t))
        cancel = NO_CANCEL
        if ps["cancel"] and line_cancel is None:
            cancel = Cancel(ps["cancel"]["seam"], ps["cancel"]["at"])
        hygiene()
        P0.quiet = bool(ps["quiet"])
        SEAMS.clock.configure(ps["clock"], cancel if cancel.seam == "clock" else NO_CANCEL)
        if cancel.seam == "write":
            SEAMS.err.cancel = cancel
        if cancel.seam == "step":
            sched.MON = StepCancel(cancel)
        outcome = "completed"
        try:
            if line_cancel is not None:
                with line_cancel:
                    compare(f, t)
            else:
                compare(f, t)
        except KeyboardInterrupt:
            outcome = "cancelled"
        except core.RunTimeout:
            raise
        except Exception as e:
            if "outside-graphtage" in core.graphtage_site(e):
                raise
            outcome = "raised:" + core.graphtage_site(e)   # not a purity verdict by itself
        finally:
            SEAMS.clock.cancel = NO_CANCEL
            SEAMS.err.cancel = NO_CANCEL
            sched.MON = None
        if line_cancel is not None:
            cancel = line_cancel
        if cancel.fired:
            counters["fault.cancel_" + cancel.seam] = counters.get("fault.cancel_" + cancel.seam, 0) + 1
            counters["probe.cancel_fired_" + cancel.seam] = counters.get("probe.cancel_fired_" + cancel.seam, 0) + 1
            if line_cancel is not None and line_cancel.where:
                k = "cancelled_in." + line_cancel.where
                counters[k] = counters.get(k, 0) + 1
        log.add("purity", ps["mode"], ps["quiet"], ps["cancel"], chain[0], outcome)
        fp1 = (sched.fingerprint(f), sched.fingerprint(t))
        if fp1 != fp0:
            side = "first" if fp1[0] != fp0[0] else "second"
            diff = next(((a, b) for a, b in zip(fp0[0] + fp0[1], fp1[0] + fp1[1]) if a != b), None)
            raise Violation("tree-altered", f"{ps['mode']}/{outcome.split(':')[0]}",
                            f"the {side} input tree changed during a {outcome} comparison: {diff}")
        if ref_text is None:
            return
        hygiene()
        SEAMS.clock.configure("frozen")
        try:
            text = render(wl["family"], f.diff(t), False, False, True)
        except core.RunTimeout:
            raise
        except Exception as e:
            if "outside-graphtage" in core.graphtage_site(e):
                raise
            raise Violation("next-diff-differs", f"{ps['mode']}/{outcome.split(':')[0]}",
                            f"after a {outcome} comparison the next diff() of the same trees raised "
                            f"{core.graphtage_site(e)}: {core.short_tb(e, 4)}")
        if text != ref_text:
            raise Violation("next-diff-differs", f"{ps['mode']}/{outcome.split(':')[0]}",
                            f"after a {outcome} comparison the next diff() of the same trees renders differently:\n"
                            f" got {text[:500]!r}\n ref {ref_text[:500]!r}")
        fp2 = (sched.fingerprint(f), sched.fingerprint(t))
        if fp2 != fp0:
            raise Violation("tree-altered", f"{ps['mode']}/second-diff", "an input tree changed during the second diff()")

    # ------------------------------------------------------------------ shrinking
    def shrink_candidates(self, case):
        if case["purity"] and not case["history"]:
            ps = case["purity"][0]
            for wl in sched.shrink_workload(ps["wl"]):
                yield dict(case, purity=[dict(ps, wl=wl)])
            if ps.get("chain"):
                yield dict(case, purity=[dict(ps, chain=0)])
            if ps.get("quiet"):
                yield dict(case, purity=[dict(ps, quiet=False)])
            if ps.get("clock") != "frozen":
                yield dict(case, purity=[dict(ps, clock="frozen")])
            return
        if case.get("soak"):
            yield dict(case, soak=None)
            if case["soak"]["n"] > 10:
                yield dict(case, soak=dict(case["soak"], n=case["soak"]["n"] // 2))
        hist = case["history"]
        for h2 in ddmin_list(hist):
            if len(h2) < 1:
                continue
            yield dict(case, history=h2)
        if len(case["envs"]) > 1:
            for e2 in ddmin_list(case["envs"]):
                if e2:
                    yield dict(case, envs=e2)
        used = sorted({h["item"] for h in hist if h["kind"] == "main"})
        if len(used) == 1:
            it = case["items"][used[0]]
            for k in range(len(it["opts"])):
                o2 = it["opts"][:k] + it["opts"][k + 1:]
                items2 = list(case["items"])
                items2[used[0]] = dict(it, opts=o2)
                yield dict(case, items=items2)


CHECK = C07()
