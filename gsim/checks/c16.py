"""C16 - The priority queue always yields a minimum.

Simulation: a seeded operation history drives the real FibonacciHeap / MaxFibonacciHeap in lock-step with a
trivially correct model (a dict uid -> current key).  The adversary is the history; the component has no I/O,
clock or concurrency, so no fault kind exists for it (stated in the evidence instead of being invented).

Observations are scheduled events: peek() is not free of side effects (it extracts lazily deleted minima), so it
is only called where the history says so.
"""
import random

from .. import core
from ..core import EventLog, Violation, Streams
from ..driver import result, ddmin_list

core.use_repo()
from graphtage import fibonacci  # noqa: E402
from graphtage.utils import smallest, largest  # noqa: E402

KMAX = 5


class Item:
    """A heap item.  Ordering and equality look at k only, so duplicates are real ties; uid makes every extraction
    attributable to one push."""
    __slots__ = ("uid", "k")

    def __init__(self, uid, k):
        self.uid = uid
        self.k = k

    def __lt__(self, o):
        return self.k < o.k

    def __le__(self, o):
        return self.k <= o.k

    def __gt__(self, o):
        return self.k > o.k

    def __ge__(self, o):
        return self.k >= o.k

    def __eq__(self, o):
        return isinstance(o, Item) and self.k == o.k

    def __hash__(self):
        return hash(self.k)

    def __repr__(self):
        return f"I{self.uid}:{self.k}"


# ---------------------------------------------------------------------------------------------- reach probes
_PROBE = {}


def _install_probes():
    H = fibonacci.FibonacciHeap
    core.count_calls(H, "_cascading_cut", _PROBE, "cascading", depth_key="maxdepth")
    core.count_calls(H, "_link", _PROBE, "links")
    core.count_calls(H, "_cut", _PROBE, "cuts")


_install_probes()

# ---------------------------------------------------------------------------------------------- enumeration
# Exhaustive part of the quantifier: every suffix of <= L symbols over a 16-symbol alphabet, after each of a few
# prefixes that put the heap into a consolidated state (where cascading cuts can happen).
_ALPHABET = ([["push", k, 0, 1] for k in (0, 1, 2)] + [["pop", 0, 0, 1]] +
             [["dec", n, b, 1] for n in (0, 1, 2) for b in (0, 1, 2)] + [["rem", n, 0, 1] for n in (0, 1, 2)])
_PREFIXES = [
    [],
    [["push", 2, 0, 0]] * 5 + [["pop", 0, 0, 0]],
    [["push", 1, 0, 0], ["push", 2, 0, 0], ["push", 2, 0, 0], ["push", 3, 0, 0], ["push", 3, 0, 0],
     ["push", 4, 0, 0], ["push", 4, 0, 0], ["push", 5, 0, 0], ["push", 5, 0, 0], ["pop", 0, 0, 0]],
]


def _enum_count(length):
    return len(_PREFIXES) * 2 * sum(len(_ALPHABET) ** n for n in range(1, length + 1))


def _enum_case(index, length):
    per = sum(len(_ALPHABET) ** n for n in range(1, length + 1))
    combo, r = divmod(index, per)
    pre, kind = divmod(combo, 2)
    n = 1
    while r >= len(_ALPHABET) ** n:
        r -= len(_ALPHABET) ** n
        n += 1
    ops = []
    for _ in range(n):
        r, s = divmod(r, len(_ALPHABET))
        ops.append(list(_ALPHABET[s]))
    return {"mode": "enum", "heap": "min" if kind == 0 else "max", "keyfn": True,
            "ops": [list(o) for o in _PREFIXES[pre]] + ops}


class C16:
    ID = "C16"
    LEVEL = "exploration"
    HANG_IS_VIOLATION = True
    ENUM_LEN = {"quick": 3, "thorough": 5}
    TIERS = {
        "quick": {"runs": _enum_count(3) + 2000000, "budget_s": 150, "chunk": 8000, "run_timeout_s": 30},
        "thorough": {"runs": _enum_count(5) + 12000000, "budget_s": 1500, "chunk": 20000, "run_timeout_s": 30},
    }
    RULE = ("cases: (a) every operation suffix of length <= L (quick 3, thorough 5) over a 16-symbol alphabet "
            "(push 0/1/2, pop, decrease node 0/1/2 by 0/1/2, remove node 0/1/2) after each of 3 prefixes (empty, "
            "two consolidated forests), for min- and max-heap; (b) seeded random histories of 1-200 operations "
            "with per-run op mix, key-domain size, key function on/off, burst shapes. non-trivial: the history "
            "contains a decrease_key or remove that happened after a pop on a heap that held >= 3 live items; "
            "distinct by hash of (heap kind, key-function flag, operation list).")
    ASSUMPTIONS = [
        "single caller: graphtage never shares a heap between threads, so the adversary is the operation history",
        "peek/pop on an empty heap, decrease_key to a larger key and operations on removed nodes are outside the "
        "property's domain and are not generated",
        "the model (dict uid -> key, min over values) is trusted",
    ]
    COMPONENTS = {"real": ["graphtage.fibonacci.FibonacciHeap", "MaxFibonacciHeap", "HeapNode", "ReversedComparator",
                           "graphtage.utils.smallest/largest"],
                  "simulated": ["operation history (seeded)", "observation schedule (when peek is called)"],
                  "stubbed": [], "faults": "none exist for this component (no I/O, clock or concurrency)"}
    PROBES = ["cascading_cut_depth_ge2", "link", "cut", "root_singleton_pop", "remove_current_min",
              "remove_child_of_marked_parent", "decrease_equal_key", "pop_after_decrease"]

    # ------------------------------------------------------------------ generation
    def gen_case(self, seed, tier, index):
        ec = _enum_count(self.ENUM_LEN[tier])
        if index < ec:
            return _enum_case(index, self.ENUM_LEN[tier])
        st = Streams(seed)
        w = st["workload"]
        kdom = w.choice([1, 2, 3, 6, 6])
        n = w.choice([w.randint(1, 12), w.randint(5, 60), w.randint(20, 200)])
        shape = w.choice(["mixed", "mixed", "burst", "sorted_push", "helpers"])
        if shape == "helpers":
            xs = [w.randrange(kdom) for _ in range(w.randint(0, 14))]
            return {"mode": "helpers", "xs": xs, "n": w.randint(0, len(xs) + 2), "keyfn": w.random() < 0.5,
                    "shape": w.choice(["list", "gen", "varargs"])}
        wt = {"push": w.uniform(0.5, 4), "pop": w.uniform(0.2, 3), "peek": w.uniform(0, 1),
              "dec": w.uniform(0, 3), "rem": w.uniform(0, 2), "clear": w.choice([0, 0, 0.05])}
        obs_p = w.choice([0.0, 0.1, 0.5, 1.0])
        names = list(wt)
        weights = [wt[k] for k in names]
        ops = []
        if shape in ("burst", "sorted_push"):
            m = w.randint(3, 40)
            ks = [w.randrange(kdom) for _ in range(m)]
            if shape == "sorted_push":
                ks.sort(reverse=w.random() < 0.5)
            ops += [["push", k, 0, 0] for k in ks]
            ops += [["pop", 0, 0, int(w.random() < obs_p)]]
            wt2 = [0.3, 0.6, 0.2, 3.0, 2.0, 0.0]
            for _ in range(n):
                o = w.choices(names, wt2)[0]
                ops.append([o, w.randrange(1 << 16), w.randrange(1 << 16), int(w.random() < obs_p)])
        else:
            for _ in range(n):
                o = w.choices(names, weights)[0]
                ops.append([o, w.randrange(1 << 16), w.randrange(1 << 16), int(w.random() < obs_p)])
        for o in ops:
            if o[0] == "push":
                o[1] %= kdom
        case = {"mode": "history", "heap": w.choice(["min", "max"]), "keyfn": w.random() < 0.6, "ops": ops}
        # union of two heaps (`a + b`): insertion of a whole second queue at once.  Drawn from a stream of its own so
        # that the histories of earlier versions are unchanged apart from the inserted steps.
        mg = st["merge"]
        if mg.random() < 0.3:
            for _ in range(mg.choice([1, 1, 2, 3])):
                ops.insert(mg.randint(0, len(ops)), ["merge", mg.randrange(1 << 16), mg.randrange(1 << 16),
                                                     int(mg.random() < obs_p)])
        return case

    # ------------------------------------------------------------------ execution
    def run_case(self, case):
        if case["mode"] == "helpers":
            return self._run_helpers(case)
        log = EventLog()
        trace = []
        counters = {}
        maxheap = case["heap"] == "max"
        keyfn = case["keyfn"]
        if maxheap:
            heap = fibonacci.MaxFibonacciHeap(key=(lambda it: it.k) if keyfn else None)
        else:
            heap = fibonacci.FibonacciHeap(key=(lambda it: it.k) if keyfn else None)
        live = {}     # uid -> [node, key]
        order = []    # uids in creation order (live only)
        uid = 0
        popped = False
        nontrivial = False
        last_dec = False
        _PROBE.clear()

        def best():
            ks = [v[1] for v in live.values()]
            return max(ks) if maxheap else min(ks)

        def fail(kind, op, detail):
            raise Violation(kind, f"{case['heap']}/{op}", detail + f" | live={sorted((u, v[1]) for u, v in live.items())}")

        def size_check(op):
            n = len(heap)
            if n != len(live):
                fail("len", op, f"len(heap)={n} but {len(live)} live items")
            if bool(heap) != (len(live) > 0):
                fail("bool", op, f"bool(heap)={bool(heap)} but {len(live)} live items")

        def peek_check(op):
            if not live:
                return
            it = heap.peek()
            if it.uid not in live:
                fail("peek-not-live", op, f"peek() returned {it!r}, which is not live")
            if live[it.uid][1] != best():
                fail("peek-not-min", op, f"peek() returned {it!r} with key {live[it.uid][1]}, best live key is {best()}")

        try:
            for step, (op, a, b, obs) in enumerate(case["ops"]):
                if op == "push":
                    it = Item(uid, a)
                    node = heap.push(it)
                    live[uid] = [node, a]
                    order.append(uid)
                    log.add(step, "push", uid, a)
                    uid += 1
                    last_dec = False
                elif op == "pop":
                    if not live:
                        log.add(step, "pop-skip")
                        continue
                    want = best()
                    if len(live) == 1:
                        counters["probe.root_singleton_pop"] = counters.get("probe.root_singleton_pop", 0) + 1
                    it = heap.pop()
                    if not isinstance(it, Item) or it.uid not in live:
                        fail("pop-not-live", op, f"pop() returned {it!r}, which is not a live item")
                    if live[it.uid][1] != want:
                        fail("pop-not-min", op, f"pop() returned {it!r} with key {live[it.uid][1]}, best live key was {want}")
                    del live[it.uid]
                    order.remove(it.uid)
                    log.add(step, "pop", it.uid, want)
                    popped = True
                    if last_dec:
                        counters["probe.pop_after_decrease"] = counters.get("probe.pop_after_decrease", 0) + 1
                    last_dec = False
                elif op == "peek":
                    if not live:
                        log.add(step, "peek-skip")
                        continue
                    peek_check(op)
                    log.add(step, "peek")
                elif op == "dec":
                    if not live:
                        log.add(step, "dec-skip")
                        continue
                    u = order[a % len(order)]
                    node, cur = live[u]
                    if maxheap:
                        newk = cur + b % (KMAX + 1 - cur) if cur <= KMAX else cur
                    else:
                        newk = cur - b % (cur + 1)
                    if newk == cur:
                        counters["probe.decrease_equal_key"] = counters.get("probe.decrease_equal_key", 0) + 1
                    if popped and len(live) >= 3:
                        nontrivial = True
                    key_obj = newk if keyfn else Item(-1, newk)
                    if maxheap:
                        key_obj = fibonacci.ReversedComparator(key_obj)
                    heap.decrease_key(node, key_obj)
                    live[u][1] = newk
                    log.add(step, "dec", u, cur, newk)
                    last_dec = True
                elif op == "rem":
                    if not live:
                        log.add(step, "rem-skip")
                        continue
                    u = order[a % len(order)]
                    node, cur = live[u]
                    if popped and len(live) >= 3:
                        nontrivial = True
                    if cur == best():
                        counters["probe.remove_current_min"] = counters.get("probe.remove_current_min", 0) + 1
                    par = getattr(node, "parent", None)
                    if par is not None and getattr(par, "mark", False):
                        counters["probe.remove_child_of_marked_parent"] = \
                            counters.get("probe.remove_child_of_marked_parent", 0) + 1
                    heap.remove(node)
                    del live[u]
                    order.remove(u)
                    log.add(step, "rem", u, cur)
                    last_dec = False
                elif op == "merge":
                    # a second queue of the same kind with 0-4 items (bits of a), optionally after one extraction so
                    # that it holds linked trees, united with the queue under test on the left or on the right
                    other = (fibonacci.MaxFibonacciHeap if maxheap else fibonacci.FibonacciHeap)(
                        key=(lambda it: it.k) if keyfn else None)
                    m = a % 5
                    fresh = {}
                    for i in range(m):
                        k = (b >> (3 * i)) % (KMAX + 1)
                        fresh[uid] = [other.push(Item(uid, k)), k]
                        uid += 1
                    if (a >> 4) & 1 and len(fresh) >= 2:
                        ks = [v[1] for v in fresh.values()]
                        want = max(ks) if maxheap else min(ks)
                        it = other.pop()
                        if not isinstance(it, Item) or it.uid not in fresh or fresh[it.uid][1] != want:
                            fail("pop-not-min", op, f"pop() of the second queue returned {it!r}, best key was {want}")
                        del fresh[it.uid]
                    heap = (other + heap) if (a >> 5) & 1 else (heap + other)
                    for u, v in fresh.items():
                        live[u] = v
                        order.append(u)
                    if fresh and len(live) > len(fresh):
                        counters["probe.merge_two_nonempty"] = counters.get("probe.merge_two_nonempty", 0) + 1
                    log.add(step, "merge", m, len(fresh), (a >> 5) & 1)
                    last_dec = False
                elif op == "clear":
                    heap.clear()
                    live.clear()
                    order.clear()
                    log.add(step, "clear")
                    last_dec = False
                else:
                    raise ValueError(op)
                size_check(op)
                if obs:
                    peek_check(op + "+peek")
            # faults stop (there are none): drain, which must yield exactly the live multiset in order
            prev = None
            while live:
                want = best()
                it = heap.pop()
                if not isinstance(it, Item) or it.uid not in live:
                    fail("pop-not-live", "drain", f"pop() returned {it!r}, which is not a live item")
                if live[it.uid][1] != want:
                    fail("pop-not-min", "drain", f"pop() returned {it!r} with key {live[it.uid][1]}, best live key was {want}")
                del live[it.uid]
                size_check("drain")
                log.add("drain", it.uid, want)
                prev = want
            if len(heap) != 0 or bool(heap):
                fail("len", "drain", f"heap reports len {len(heap)} after all live items were extracted")
        except Violation as v:
            log.add("VIOLATION", v.kind, v.site)
            return result(violation=v.as_dict(), digest=log.digest(), trace=log.tail[-60:])
        except core.RunTimeout:
            raise
        except Exception as e:
            site = core.graphtage_site(e)
            if "outside-graphtage" in site:
                raise
            log.add("EXC", site)
            return result(violation={"kind": "exception", "site": f"{case['heap']}/{site}",
                                     "detail": core.short_tb(e)}, digest=log.digest(), trace=log.tail[-60:])
        if _PROBE.get("maxdepth", 0) >= 2:
            counters["probe.cascading_cut_depth_ge2"] = 1
        if _PROBE.get("links"):
            counters["probe.link"] = _PROBE["links"]
        if _PROBE.get("cuts"):
            counters["probe.cut"] = _PROBE["cuts"]
        counters["mode." + case["mode"]] = 1
        nt = core.h64(case["heap"], case["keyfn"], case["ops"]) if nontrivial else None
        return result(digest=log.digest(), nt=nt, counters=counters, trace=log.tail[:60])

    def _run_helpers(self, case):
        """smallest()/largest(): the helpers graphtage builds on the heaps (utils.py)."""
        log = EventLog()
        xs, n = case["xs"], case["n"]
        items = [Item(i, k) for i, k in enumerate(xs)]
        key = (lambda it: it.k) if case["keyfn"] else None
        for name, fn, rev in (("smallest", smallest, False), ("largest", largest, True)):
            if case["shape"] == "list":
                args = (list(items),)
            elif case["shape"] == "gen":
                args = ((it for it in items),)
            else:
                args = tuple(items)
                if len(args) == 1:
                    args = (list(items),)
            try:
                got = list(fn(*args, n=n, key=key))
            except core.RunTimeout:
                raise
            except Exception as e:
                site = core.graphtage_site(e)
                if "outside-graphtage" in site:
                    raise
                return result(violation={"kind": "exception", "site": f"{name}/{site}", "detail": core.short_tb(e)},
                              digest=log.digest())
            want = sorted(xs, reverse=rev)[:n]
            gk = sorted((it.k for it in got), reverse=rev)
            uids = [it.uid for it in got]
            log.add(name, gk)
            sized = case["shape"] != "gen"
            if len(set(uids)) != len(uids) or gk != want:
                # when len(sequence) <= n the helpers return the sequence itself, unsorted: still the n best
                return result(violation={"kind": "helper-wrong", "site": name,
                                         "detail": f"{name}({xs}, n={n}) returned keys {[it.k for it in got]}, "
                                                   f"expected the multiset {want} (sized={sized})"},
                              digest=log.digest())
        return result(digest=log.digest(), counters={"mode.helpers": 1})

    # ------------------------------------------------------------------ shrinking
    def shrink_candidates(self, case):
        if case["mode"] == "helpers":
            for xs in ddmin_list(case["xs"]):
                yield dict(case, xs=xs)
            if case["n"] > 0:
                yield dict(case, n=case["n"] - 1)
            return
        ops = case["ops"]
        for cand in ddmin_list(ops):
            yield dict(case, ops=cand, mode="history")
        for i, o in enumerate(ops):
            if o[3]:
                yield dict(case, ops=ops[:i] + [[o[0], o[1], o[2], 0]] + ops[i + 1:], mode="history")
            if o[0] in ("dec", "rem") and o[1] >= len(ops):
                yield dict(case, ops=ops[:i] + [[o[0], o[1] % max(1, len(ops)), o[2], o[3]]] + ops[i + 1:],
                           mode="history")
            if o[0] == "dec" and o[2] > KMAX:
                yield dict(case, ops=ops[:i] + [[o[0], o[1], o[2] % (KMAX + 1), o[3]]] + ops[i + 1:],
                           mode="history")
        if case.get("keyfn") is False:
            yield dict(case, keyfn=True, mode="history")


CHECK = C16()
