"""C05 - Results do not depend on how the edit API is driven or on status settings.

Per case: one pair of documents; a reference run (real TreeNode.diff(), non-quiet shared printer, frozen clock) gives
the final cost c0, the canonical script S0 and the EditedTreeNode annotations.  Then several simulated runs on fresh
builds of the same documents, each with its own schedule of public edit-API calls (incl. suspended generators and
quiet flips), printer configuration (quiet x colour x tty) and clock profile, followed by driving to completion and
rendering.  Macro schedules that exist in the code base are always included (diff() with a quiet shared printer,
get_all_edit_contexts(), edited_cost(), tighten-to-exhaustion without ever reading bounds, bounds read twice).

Oracle: no run raises; every run ends with cost c0 and script S0; a resumed edits() lists what an uninterrupted one
lists; rendering leaves cost and script unchanged.
"""
import io
import os

from .. import core, sched
from ..core import EventLog, Streams, Violation
from ..driver import result, ddmin_list
from ..seams import SEAMS

import graphtage
from graphtage import printer as gprinter
from graphtage.tree import CompoundEdit

P0 = sched.DEFAULT_PRINTER
MACROS = ["diff_quiet", "diff_clock", "contexts", "contexts_quiet", "edited_cost_quiet", "exhaust_no_bounds",
          "bounds_twice", "cli_status"]


class Sink(io.StringIO):
    """A private in-memory output stream for renders.  tty=False: like the StringIO a library user would pass (no file
    descriptor: fileno() raises io.UnsupportedOperation, the raw write path).  tty=True: a stream that says it is a
    terminal IS one - its descriptor is the slave side of a real pseudo-terminal (80 x 24), created on demand, so that
    code which trusts "isatty() implies fileno()" (os.get_terminal_size, termios) meets what a real terminal offers
    (reviewer variant C05 r4v1).  What is written through the stream object is collected in memory either way."""

    def __init__(self, tty):
        super().__init__()
        self.tty = tty
        self._pty = None

    def isatty(self):
        return self.tty

    def fileno(self):
        if not self.tty:
            raise io.UnsupportedOperation("fileno")
        if self._pty is None:
            import fcntl
            import struct
            import termios
            master, slave = os.openpty()
            try:
                fcntl.ioctl(slave, termios.TIOCSWINSZ, struct.pack("HHHH", 24, 80, 0, 0))
                os.set_blocking(master, False)
            except OSError:
                pass
            self._pty = (master, slave)
        return self._pty[1]

    def release(self):
        if self._pty is not None:
            for fd in self._pty:
                try:
                    os.close(fd)
                except OSError:
                    pass
            self._pty = None

    @property
    def parts(self):
        return [self.getvalue()]


def formatter_for(family):
    if family == "json":
        return graphtage.json.JSONFormatter.DEFAULT_INSTANCE
    if family == "yaml":
        return graphtage.yaml.YAMLFormatter.DEFAULT_INSTANCE
    if family == "xml":
        return graphtage.xml.XMLFormatter.DEFAULT_INSTANCE
    if family == "csv":
        return graphtage.csv.CSVFormatter.DEFAULT_INSTANCE
    if family == "plist":
        return graphtage.plist.PLISTFormatter.DEFAULT_INSTANCE
    if family in ("py", "ast"):
        from graphtage import pydiff
        return pydiff.PyDiffFormatter.DEFAULT_INSTANCE
    raise ValueError(family)


def hygiene():
    """Runs are meant to be independent but share a worker: put process-global state back to the baseline."""
    P0.quiet = False
    SEAMS.reinstall_streams()
    SEAMS.out.drop()
    SEAMS.err.drop()
    try:
        import tqdm
        tqdm.tqdm._instances.clear()
    except Exception:
        pass


def render(family, ret, ansi, tty, quiet):
    sink = Sink(tty)
    try:
        p = gprinter.Printer(out_stream=sink, ansi_color=ansi, quiet=quiet)
        with p:
            formatter_for(family).print(p, ret)
        return "".join(sink.parts)
    finally:
        sink.release()


class C05:
    ID = "C05"
    LEVEL = "exploration"
    HANG_IS_VIOLATION = False
    TIERS = {
        "quick": {"runs": 24000, "budget_s": 170, "chunk": 200, "run_timeout_s": 60},
        "thorough": {"runs": 900000, "budget_s": 1700, "chunk": 1000, "run_timeout_s": 60},
    }
    RULE = ("one case = one generated document pair (JSON-like / YAML-style / XML / CSV / plist-wrapped; second "
            "document a seeded mutation of the first with p=0.7; all four BuildOptions flags drawn) + a reference run "
            "(TreeNode.diff, non-quiet, frozen clock) + 2-4 scheduled runs (1-400 public-API steps B/T/C/V/N/E/K/R/D/"
            "X/Q/Z/F over discovered actors, per-run op mix, suspended generators, quiet flips, clock profile, colour/"
            "tty for the final render) + 2 macro schedules. evaluations = cases. non-trivial: the documents differ, the "
            "root edit is compound and at least one scheduled run tightened a compound actor; distinct by hash of "
            "(documents, options, schedules).")
    ASSUMPTIONS = [
        "pairs stay within one document family; calls on an edit (or its ancestors) while that edit's own edits() "
        "iterator is open are caller misuse and are not generated",
        "the canonical serialisation (class, from-path, to-path, final cost, validity, children in edits() order) is "
        "what 'the same script' means; plain renderings are compared with the reference rendering, coloured ones are not",
        "independent runs share a worker process; process-global state graphtage mutates (shared printer flags, "
        "sys.std* wrappers, tqdm registry, ANSI context stack) is put back between runs",
    ]
    COMPONENTS = {"real": ["graphtage engine: all edits, matcher, levenshtein, tree.diff / get_all_edit_contexts / "
                           "edited_cost, formatters, Printer", "scipy linear_sum_assignment, numpy, intervaltree, tqdm"],
                  "simulated": ["order of public edit-API calls (seeded scheduler)", "wall clock (tqdm.std.time)",
                                "stdout / stderr (SimStream fd 1/2)", "DEFAULT_PRINTER.quiet / colour / tty"],
                  "stubbed": ["tqdm monitor thread (disabled)"]}
    PROBES = ["compound_tightened_twice_without_bounds_read", "tighten_after_cleanup", "generator_suspended",
              "generator_resumed", "quiet_flipped_midrun", "bar_rendered_under_jumped_clock", "rendered_colour",
              "rendered_tty", "macro_diff_quiet", "macro_contexts", "macro_cli_status", "root_compound", "complete_listing_frozen"]

    # ------------------------------------------------------------------ generation
    def gen_case(self, seed, tier, index):
        st = Streams(seed)
        w, sc, env = st["workload"], st["schedule"], st["env"]
        wl = sched.gen_workload(w, scale=2 if (tier == "thorough" and w.random() < 0.5) else 1)
        runs = []
        for _ in range(sc.choice([2, 2, 3, 4])):
            n = sc.choice([sc.randint(1, 8), sc.randint(4, 40), sc.randint(20, 150), sc.randint(100, 400)])
            runs.append({"mode": "sched", "quiet0": env.random() < 0.4, "ansi": env.random() < 0.4,
                         "tty": env.random() < 0.3, "render_quiet": env.random() < 0.5,
                         "clock": env.choice(["frozen", "1ms", "0.2s", "3s", "1h"]),
                         "opw": sched.gen_opw(sc), "schedule": sched.gen_schedule(sc, n),
                         "drop_open": sc.random() < 0.3})
        for name in sc.sample(MACROS, 2):
            runs.append({"mode": "macro", "name": name, "clock": env.choice(["frozen", "3s", "1h"])})
        return {"wl": wl, "runs": runs}

    # ------------------------------------------------------------------ reference
    def reference(self, wl, log):
        hygiene()
        SEAMS.clock.configure("frozen")
        f, t = sched.build_pair(wl)
        ret = f.diff(t)
        root = ret.edit_list[0] if ret.edit_list else ret.edit
        sched.exhaust(root)
        b = root.bounds()
        paths = sched.Paths(ret, t)
        script = sched.serialise(root, paths)
        ann = sched.annotations(ret, paths)
        ec = ret.edited_cost()
        # Rendering is a driver of the engine too.  A formatter that cannot print this kind of tree at all fails the
        # same way under every setting - that is some other property's business; C05 only demands that the outcome
        # does not depend on the settings.
        rout = render_outcome(wl["family"], ret, False, False, False)
        rtext = LAST_RENDER[0] if rout == "ok" else None
        log.add("ref", b.lower_bound, b.upper_bound, core.digest_of(script), ec, rout)
        return {"cost": (b.lower_bound, b.upper_bound), "script": script, "ann": ann, "edited_cost": ec,
                "compound": isinstance(root, CompoundEdit), "equal": wl["a"] == wl["b"], "render": rout,
                "render_text": rtext}

    # ------------------------------------------------------------------ execution
    def run_case(self, case):
        log = EventLog()
        counters = {}
        wl = case["wl"]
        t0 = SEAMS.clock.elapsed
        nontrivial = False

        def bump(k, n=1):
            counters[k] = counters.get(k, 0) + n

        def internal(e, where, run):
            site = core.graphtage_site(e)
            if "outside-graphtage" in site and not isinstance(e, (RecursionError,)):
                raise e
            v = {"kind": "internal-error", "site": site,
                 "detail": f"{where}: {core.short_tb(e, 8)}\nworkload={wl}"}
            r = result(violation=v, digest=log.digest(), counters=counters, trace=log.tail[-80:])
            r["case"] = dict(case, runs=[run]) if run is not None else dict(case, runs=[])
            return r
        try:
            try:
                ref = self.reference(wl, log)
            except core.RunTimeout:
                raise
            except Violation:
                raise
            except Exception as e:
                return internal(e, "reference run (TreeNode.diff, default printer)", None)
            if ref["compound"]:
                bump("probe.root_compound")
            for ri, run in enumerate(case["runs"]):
                hygiene()
                SEAMS.clock.configure(run.get("clock", "frozen"))
                log.add("run", ri, run["mode"], run.get("name", ""))
                try:
                    if run["mode"] == "sched":
                        self._sched_run(wl, run, ref, log, counters)
                        if counters.get("compound_T"):
                            nontrivial = True
                    else:
                        self._macro_run(wl, run, ref, log, counters)
                except core.RunTimeout:
                    raise
                except Violation as v:
                    log.add("VIOLATION", v.kind, v.site)
                    r = result(violation=dict(v.as_dict(), detail=v.detail[:1800] + f"\nworkload={wl}"),
                               digest=log.digest(), counters=counters, trace=log.tail[-80:])
                    r["case"] = dict(case, runs=[run])
                    return r
                except Exception as e:
                    log.add("EXC", core.graphtage_site(e))
                    return internal(e, f"run {ri} ({run['mode']} {run.get('name', '')})", run)
        finally:
            hygiene()
        sim_s = SEAMS.clock.elapsed - t0
        nt = None
        if nontrivial and not ref["equal"] and ref["compound"]:
            nt = core.h64(wl, [r.get("schedule") for r in case["runs"]])
        return result(digest=log.digest(), nt=nt, counters=counters, sim_s=sim_s, trace=log.tail[:80])

    def _compare(self, what, cost, script, ref):
        if cost != ref["cost"]:
            raise Violation("cost-differs", what,
                            f"final cost {list(cost)} but the reference order (diff(), default printer) gives "
                            f"{list(ref['cost'])}")
        if script != ref["script"]:
            raise Violation("script-differs", what,
                            f"script differs from the reference order:\n got {str(script)[:700]}\n ref {str(ref['script'])[:700]}")

    def _sched_run(self, wl, run, ref, log, counters):
        P0.quiet = bool(run["quiet0"])
        s = sched.Session(wl, log, counters)
        for op, ai, arg in sched.decode_ops(run["schedule"], run["opw"]):
            s.step(op, ai, arg)
        if run.get("drop_open"):
            for rec in list(s.suspended):
                s._pull(rec, 0, drop=True)
        s.finish_generators()
        cost, script = s.outcome()
        log.add("outcome", cost, core.digest_of(script))
        self._compare("scheduled", cost, script, ref)
        s.check_resumed_listings()
        s.check_frozen_listings()
        s.check_non_zero_answers()
        # render: colour / tty / status are drivers too (has_non_zero_cost, edits() while printing)
        s.root.on_diff(s.ret)
        ann = sched.annotations(s.ret, s.paths)
        if ann != ref["ann"]:
            raise Violation("annotations-differ", "scheduled",
                            f"EditedTreeNode annotations differ from the reference:\n got {str(ann)[:600]}\n ref {str(ref['ann'])[:600]}")
        ansi_color = None if run["tty"] else bool(run["ansi"])   # None: auto-detect from isatty(), as the CLI does
        rout = render_outcome(wl["family"], s.ret, ansi_color, run["tty"], run["render_quiet"])
        if rout != ref["render"]:
            raise Violation("render-outcome-differs", "scheduled",
                            f"rendering with ansi_color={ansi_color} tty={run['tty']} quiet={run['render_quiet']} after "
                            f"this schedule ended as {rout!r}, but as {ref['render']!r} after the reference run")
        text = LAST_RENDER[0] if rout == "ok" else ""
        if rout == "ok" and ansi_color is False and ref.get("render_text") is not None and text != ref["render_text"]:
            # same documents, same script, same (plain) printer settings - only the call history differs
            raise Violation("render-differs", "scheduled",
                            f"the plain rendering after this schedule differs from the rendering after the reference "
                            f"run:\n got {text[:500]!r}\n ref {ref['render_text'][:500]!r}")
        if run["ansi"]:
            counters["probe.rendered_colour"] = counters.get("probe.rendered_colour", 0) + 1
        if run["tty"]:
            counters["probe.rendered_tty"] = counters.get("probe.rendered_tty", 0) + 1
        log.add("render", len(text))
        cost2, script2 = s.outcome()
        self._compare("after-render", cost2, script2, ref)
        if run["clock"] in ("3s", "1h") and ("it/s]" in SEAMS.err.since(0) or "s/it]" in SEAMS.err.since(0)):
            counters["probe.bar_rendered_under_jumped_clock"] = counters.get("probe.bar_rendered_under_jumped_clock", 0) + 1

    def _macro_run(self, wl, run, ref, log, counters):
        name = run["name"]
        f, t = sched.build_pair(wl)
        if name in ("diff_quiet", "diff_clock", "edited_cost_quiet"):
            P0.quiet = name != "diff_clock"
            ret = f.diff(t)
            root = ret.edit_list[0] if ret.edit_list else ret.edit
            paths = sched.Paths(ret, t)
            if name == "edited_cost_quiet":
                ec = ret.edited_cost()
                log.add("edited_cost", ec)
                if ec != ref["edited_cost"]:
                    raise Violation("cost-differs", "edited_cost",
                                    f"edited_cost() after a quiet diff() is {ec}; after the default diff() it is "
                                    f"{ref['edited_cost']}")
            sched.exhaust(root)
            b = root.bounds()
            script = sched.serialise(root, paths)
            log.add("macro", name, b.lower_bound, b.upper_bound, core.digest_of(script))
            self._compare(name, (b.lower_bound, b.upper_bound), script, ref)
            ann = sched.annotations(ret, paths)
            if ann != ref["ann"]:
                raise Violation("annotations-differ", name, f"annotations differ:\n got {str(ann)[:600]}\n ref {str(ref['ann'])[:600]}")
            if name == "diff_quiet":
                counters["probe.macro_diff_quiet"] = counters.get("probe.macro_diff_quiet", 0) + 1
        elif name in ("contexts", "contexts_quiet"):
            P0.quiet = name == "contexts_quiet"
            paths = sched.Paths(f, t)
            got = [sched.shallow(e, paths) for _, e in f.get_all_edit_contexts(t)]
            want = [x for x in _leaves(ref["script"])]
            log.add("macro", name, len(got))
            counters["probe.macro_contexts"] = counters.get("probe.macro_contexts", 0) + 1
            if got != want:
                raise Violation("script-differs", name,
                                f"get_all_edit_contexts() lists {got} but the reference script's non-zero leaf edits "
                                f"are {want}")
        elif name == "cli_status":
            self._cli_status(wl, run, log, counters)
        elif name in ("exhaust_no_bounds", "bounds_twice"):
            P0.quiet = False
            s = sched.Session(wl, log, counters)
            if name == "exhaust_no_bounds":
                n = 0
                while s.root.tighten_bounds():
                    n += 1
                    if n > 100000:
                        raise Violation("no-convergence", name, "root still tightening after 100000 calls")
            else:
                while True:
                    s.root.bounds()
                    s.root.bounds()
                    if not s.root.tighten_bounds():
                        break
            cost, script = s.outcome()
            log.add("macro", name, cost, core.digest_of(script))
            self._compare(name, cost, script, ref)
        else:
            raise ValueError(name)

    def _cli_status(self, wl, run, log, counters):
        """The command line under every status setting: progress / status output must not change what is printed on
        stdout nor the exit status (stdout goes through the buffered StatusWriter path because it *is* fd 1)."""
        import logging
        import os
        import shutil
        import tempfile
        from .. import gen
        from ..seams import run_command
        fam = wl["family"]
        ser = {"json": lambda v: json_dumps(v), "yaml": lambda v: gen.to_yaml(_Fixed(), v),
               "plist": lambda v: gen.to_plist(None, v), "xml": lambda v: gen.xml_text(v),
               "csv": lambda v: "\n".join(",".join(r) for r in v) + "\n"}.get(fam)
        if ser is None or (fam == "csv" and any("," in c or '"' in c or "\n" in c for r in wl["a"] + wl["b"] for c in r)):
            log.add("macro", "cli_status", "skipped")
            return
        ext = {"json": ".json", "yaml": ".yaml", "plist": ".plist", "xml": ".xml", "csv": ".csv"}[fam]
        d = tempfile.mkdtemp(prefix="g5-", dir="/dev/shm" if os.path.isdir("/dev/shm") else None)
        try:
            pa, pb = os.path.join(d, "a" + ext), os.path.join(d, "b" + ext)
            with open(pa, "w", encoding="utf-8") as f:
                f.write(ser(wl["a"]))
            with open(pb, "w", encoding="utf-8") as f:
                f.write(ser(wl["b"]))
            opts = []
            if not wl["opts"]["allow_key_edits"]:
                opts.append("-k")
            if not wl["opts"]["allow_list_edits"]:
                opts.append("-l")
            elif not wl["opts"]["allow_list_edits_when_same_length"]:
                opts.append("-ll")
            outcomes = []
            for status in ([], ["--no-status"], ["--quiet"]):
                hygiene()
                root = logging.getLogger()
                for h in list(root.handlers):
                    root.removeHandler(h)
                SEAMS.clock.configure(run.get("clock", "frozen"))
                rc, extra_err, e = run_command(["graphtage", "--no-color"] + status + opts + [pa, pb])
                exc = None
                if e is not None:
                    if "outside-graphtage" in core.graphtage_site(e) and not isinstance(e, RecursionError):
                        raise e
                    exc = core.graphtage_site(e)
                outcomes.append((status, rc, exc, SEAMS.out.since(0)))
            # colour forced on: the bytes differ by design (ANSI codes), exit status and success must not
            hygiene()
            root = logging.getLogger()
            for h in list(root.handlers):
                root.removeHandler(h)
            SEAMS.clock.configure(run.get("clock", "frozen"))
            rc, extra_err, e = run_command(["graphtage", "--color"] + opts + [pa, pb])
            cexc = None
            if e is not None:
                if "outside-graphtage" in core.graphtage_site(e) and not isinstance(e, RecursionError):
                    raise e
                cexc = core.graphtage_site(e)
            if (rc, cexc) != (outcomes[0][1], outcomes[0][2]):
                raise Violation("cli-colour-differs", "cli_status",
                                f"graphtage --color {opts} ended with rc={rc} exc={cexc}, but --no-color with "
                                f"rc={outcomes[0][1]} exc={outcomes[0][2]}")
            counters["probe.macro_cli_status"] = counters.get("probe.macro_cli_status", 0) + 1
            log.add("macro", "cli_status", [(o[1], o[2], len(o[3])) for o in outcomes])
            base = outcomes[0]
            for o in outcomes[1:]:
                if o[1:] != base[1:]:
                    raise Violation("cli-status-differs", "cli_status",
                                    f"graphtage {opts} with {o[0]} gave rc={o[1]} exc={o[2]} stdout={o[3][:500]!r} but with "
                                    f"{base[0]} rc={base[1]} exc={base[2]} stdout={base[3][:500]!r}")
        finally:
            shutil.rmtree(d, ignore_errors=True)
            hygiene()

    # ------------------------------------------------------------------ shrinking
    def shrink_candidates(self, case):
        runs = case["runs"]
        if len(runs) > 1:
            for r in runs:
                yield dict(case, runs=[r])
        for wl in sched.shrink_workload(case["wl"]):
            yield dict(case, wl=wl)
        if len(runs) == 1 and runs[0]["mode"] == "sched":
            r = runs[0]
            for s2 in ddmin_list(r["schedule"]):
                yield dict(case, runs=[dict(r, schedule=s2)])
            for k, simple in (("quiet0", False), ("ansi", False), ("tty", False), ("render_quiet", False),
                              ("clock", "frozen"), ("drop_open", False)):
                if r.get(k) != simple:
                    yield dict(case, runs=[dict(r, **{k: simple})])
        elif len(runs) == 1 and runs[0].get("clock") != "frozen":
            yield dict(case, runs=[dict(runs[0], clock="frozen")])


def json_dumps(v):
    import json
    return json.dumps(v, ensure_ascii=False)


class _Fixed:
    """A stand-in PRNG for serialisers that want one: always the first choice."""

    def choice(self, seq):
        return seq[0]

    def random(self):
        return 0.99


LAST_RENDER = [None]


def render_outcome(family, ret, ansi, tty, quiet):
    """'ok' or the exception site; harness exceptions propagate."""
    try:
        LAST_RENDER[0] = render(family, ret, ansi, tty, quiet)
        return "ok"
    except core.RunTimeout:
        raise
    except Exception as e:
        site = core.graphtage_site(e)
        if "outside-graphtage" in site and not isinstance(e, RecursionError):
            raise
        return site


def _leaves(script):
    """Non-compound edits with non-zero final cost, in script (edits()) order."""
    out = []

    def walk(s):
        name, f, t, cost, valid, compound, kids = s
        if compound:
            for k in kids:
                walk(k)
        elif isinstance(cost, int) and cost > 0:
            out.append((name, f, t))
    walk(script)
    return out


CHECK = C05()
