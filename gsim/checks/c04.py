"""C04 - Cost bounds only tighten, stay sound, and converge.

Depends on the refinement HISTORY of every nested bounded object.  Every tighten_bounds() of every Bounded class is
wrapped from outside (sched.Monitor); the engine is driven by the seeded scheduler (same operations as C05) so that
nested objects are refined in orders diff() never produces, and the monitor's own bounds() reads are scheduled
(seeded, probability p in {1, 0.5, 0.1} per run) because reading bounds is not side-effect free here.

Population: every bounded object graphtage creates for document pairs of every family and option set; plus the two
bounded containers on their own - WeightedBipartiteMatcher and IterativeTighteningSearch over protocol-conformant
simulated items (the search is never instantiated by the engine itself).

Invariants per object: (1) observed intervals never widen, lower bound of an edit >= 0; (2) the value the object
finally converges to lies in every interval it ever showed; (3) a call that returned True strictly shrank the
interval; (4) a call that returned False left a single value; (5) once the schedule stops the canonical loop on the
root terminates within width(initial interval)+2 calls.  Invalid edits (bounds (-inf, inf) by design) are excluded
from the moment they report valid == False.
"""
import random

from .. import core, sched
from ..core import EventLog, Streams, Violation
from ..driver import result, ddmin_list
from ..seams import SEAMS
from .c05 import hygiene
from .c17 import SimItem

from graphtage import matching as gmatch, search as gsearch
from graphtage.bounds import Range, Infinity

P0 = sched.DEFAULT_PRINTER
from ..driver import load_findings  # noqa: E402
KNOWN = {(f["kind"], f["site"]) for f in load_findings() if f["property"] == "C04"}


def _finite(x):
    return not isinstance(x, Infinity)


class C04:
    ID = "C04"
    LEVEL = "exploration"
    HANG_IS_VIOLATION = True   # "... and that happens after finitely many steps"
    TIERS = {
        "quick": {"runs": 300000, "budget_s": 170, "chunk": 1500, "run_timeout_s": 30},
        "thorough": {"runs": 12000000, "budget_s": 1700, "chunk": 5000, "run_timeout_s": 30},
    }
    RULE = ("one case = (a) a generated document pair of one family with drawn BuildOptions + a 0-300 step schedule "
            "of public edit-API calls + an observation pattern (p in {1, .5, .1}, seeded), or (b) a "
            "WeightedBipartiteMatcher over an up-to-5x5 table of simulated slow items, or (c) an "
            "IterativeTighteningSearch over 1-8 simulated slow items, each with a T/B/... schedule on the container. "
            "non-trivial: at least one non-constant bounded object was observed at >= 2 different intervals; "
            "distinct by hash of (workload, schedule, observation seed).")
    ASSUMPTIONS = [
        "'False iff already definitive *before* the call' is NOT demanded: the property does not state it and four "
        "edit classes answer False on the call that reaches the single value",
        "PossibleEdits / the search over *real edits* is not part of the population (the engine never builds it; real "
        "edits that answer False on the converging call make the search stop early)",
        "an exception during a C04 run is C05's subject and is counted as aborted_other, not reported here",
        "simulated items follow the Bounded protocol",
    ]
    COMPONENTS = {"real": ["every graphtage class that defines tighten_bounds (wrapped from outside): "
                           + ", ".join(sched.WRAPPED_CLASSES)],
                  "simulated": ["order of engine calls", "who reads which interval when (observation schedule)",
                                "slow items for matcher / search", "clock, streams"],
                  "stubbed": ["tqdm monitor thread (disabled)"]}
    PROBES = ["observed_nested_midrefinement", "abandoned_object_driven", "matcher_session",
              "search_session", "search_with_initial_bounds", "obs_p_lt_1", "liveness_loop_ran"]

    # ------------------------------------------------------------------ generation
    def gen_case(self, seed, tier, index):
        st = Streams(seed)
        w, sc, env = st["workload"], st["schedule"], st["env"]
        kind = w.choice(["edits"] * 8 + ["matcher", "search"])
        base = {"kind": kind, "obs_p": env.choice([1.0, 1.0, 0.5, 0.1]), "obs_seed": env.getrandbits(32),
                "sample_seed": env.getrandbits(32)}
        if kind == "edits":
            n = sc.choice([0, sc.randint(1, 10), sc.randint(5, 60), sc.randint(30, 300)])
            scale = 2 if (tier == "thorough" and w.random() < 0.5) else 1
            wl = sched.gen_workload(w, scale=scale)
            if w.random() < 0.12:
                # lazily expanded collections (the plist root edit, fixed-key dictionaries) observed WHILE they expand:
                # mappings with lists / mappings as values, matcher without key pre-matching
                wl = sched.gen_workload(w, families=("plist", "plist", "json"), scale=scale)
                wl["opts"] = dict(wl["opts"], auto_match_keys=w.random() < 0.4, allow_key_edits=w.random() < 0.6)
            base.update(wl=wl, opw=sched.gen_opw(sc), schedule=sched.gen_schedule(sc, n),
                        quiet0=env.random() < 0.4, clock=env.choice(["frozen", "1ms", "3s"]))
            return base
        if kind == "matcher":
            rows, cols = w.randint(1, 5), w.randint(1, 5)
            n_items = rows * cols
        else:
            rows = cols = 0
            n_items = w.randint(1, 8)
        items, plans = [], []
        dom = w.choice([2, 4, 10])
        spans = w.choice([[0, 1, 2], [1, 3], [2, 5, 10], [0, 1, 2, 3, 5, 10, 40]])
        for _ in range(n_items):
            lo = w.randrange(dom)
            hi = lo + w.choice(spans)
            items.append([lo, hi, w.choice([lo, hi, w.randint(lo, hi)])])
            plans.append([[sc.choice([0, 1, 2, 2, 3]), sc.choice([1, 1, 2, 5])] for _ in range(sc.randint(1, 4))])
        init = None
        if kind == "search" and w.random() < 0.4:
            # a sound a-priori interval for the optimum (what PossibleEdits(initial_cost=...) hands to the search)
            mf = min(it[2] for it in items)
            init = [None if w.random() < 0.2 else mf - w.choice([0, 0, 1, 3, 20]),
                    None if w.random() < 0.2 else mf + w.choice([0, 0, 1, 3, 20])]
        base.update(rows=rows, cols=cols, items=items, plans=plans, init=init,
                    schedule=[[sc.randrange(100), sc.randrange(64)] for _ in range(sc.randint(0, 60))])
        return base

    # ------------------------------------------------------------------ execution
    def run_case(self, case):
        log = EventLog()
        counters = {}
        t0 = SEAMS.clock.elapsed
        mon = sched.Monitor(case["obs_p"], case["obs_seed"], log)
        mon.known = KNOWN
        if case["obs_p"] < 1.0:
            counters["probe.obs_p_lt_1"] = 1
        hygiene()
        try:
            sched.MON = mon
            try:
                if case["kind"] == "edits":
                    tracked = self._edits(case, mon, log, counters)
                else:
                    tracked = self._container(case, mon, log, counters)
                if mon.violation is None:
                    self._soundness(case, mon, log, counters)
            finally:
                sched.MON = None
        except core.RunTimeout:
            raise
        except Violation as v:
            if mon.violation is None:
                mon.violation = v
        except core.OutOfDomain:
            hygiene()
            return result(ood=True, digest="ood")
        except Exception as e:
            site = core.graphtage_site(e)
            if "outside-graphtage" in site and not isinstance(e, RecursionError):
                raise
            hygiene()
            log.add("ABORT", site)
            return result(aborted_other=True, digest=log.digest(), counters={"aborted." + site: 1},
                          sim_s=SEAMS.clock.elapsed - t0)
        finally:
            hygiene()
        if mon.violation is None and mon.known_hit is not None:
            mon.violation = mon.known_hit     # nothing else went wrong in this session: report the listed finding
        counters["monitored_calls"] = mon.calls
        counters["observations"] = mon.observations
        counters["objects_observed"] = len(mon.objs)
        for cn, n in mon.by_class.items():
            counters["steps." + cn] = n
        if mon.multi:
            counters["probe.observed_nested_midrefinement"] = mon.multi
        log.add("mon", mon.calls, mon.observations, len(mon.objs), mon.multi)
        sim_s = SEAMS.clock.elapsed - t0
        if mon.violation is not None:
            v = mon.violation
            log.add("VIOLATION", v.kind, v.site)
            wl = case.get("wl") or {"items": case.get("items"), "plans": case.get("plans")}
            return result(violation=dict(v.as_dict(), detail=v.detail[:1600] + f"\nworkload={wl}"),
                          digest=log.digest(), counters=counters, sim_s=sim_s, trace=log.tail[-80:])
        nt = None
        if mon.multi:
            nt = core.h64(case.get("wl"), case.get("items"), case.get("plans"), case["schedule"], case["obs_seed"])
        return result(digest=log.digest(), nt=nt, counters=counters, sim_s=sim_s, trace=log.tail[:80])

    def _edits(self, case, mon, log, counters):
        SEAMS.clock.configure(case["clock"])
        P0.quiet = bool(case["quiet0"])
        s = sched.Session(case["wl"], log, counters)
        for op, ai, arg in sched.decode_ops(case["schedule"], case["opw"]):
            s.step(op, ai, arg)
            if mon.violation is not None:
                return
        s.finish_generators()
        # faults stop: bounded liveness of the canonical loop on the root
        root = s.root
        ib = root.initial_bounds
        budget = None
        if _finite(ib.lower_bound) and _finite(ib.upper_bound):
            budget = (ib.upper_bound - ib.lower_bound) + 2
        n = 0
        while root.tighten_bounds():
            n += 1
            if budget is not None and n > budget:
                raise Violation("no-convergence", type(root).__name__,
                                f"root still reports progress after {n} calls; its initial interval "
                                f"[{ib.lower_bound},{ib.upper_bound}] allows at most {budget - 2} strict shrinks")
            if mon.violation is not None:
                return
        counters["probe.liveness_loop_ran"] = 1
        b = root.bounds()
        log.add("root", b.lower_bound, b.upper_bound, n)
        if root.valid and not b.definitive():
            raise Violation("false-not-definitive", type(root).__name__,
                            f"root answered False on [{b.lower_bound},{b.upper_bound}]")
        if not root.valid:
            counters["probe.invalid_edit_seen"] = 1
        # make sure the nested objects are really observed: list the script (tightens leaves through the monitor)
        sched.serialise(root, s.paths)

    def _container(self, case, mon, log, counters):
        stats = {k: 0 for k in ("reads", "calls", "fault.jump_to_final", "fault.both_ends", "fault.stall_upper",
                                "fault.stall_lower", "fault.crawl_lower", "fault.crawl_upper",
                                "fault.other_end_after_arrival")}
        items = [SimItem(i, lo, hi, f, [tuple(p) for p in plan] or [(2, 1)], stats)
                 for i, ((lo, hi, f), plan) in enumerate(zip(case["items"], case["plans"]))]
        # the site of a container session names its ROLE, not its class (a rename must not change a verdict); it is
        # known from the case, BEFORE the container exists: steps a constructor takes belong to the same role
        role = ("matcher" if case["kind"] == "matcher" else
                "search+initial_bounds" if case.get("init") is not None else "search")
        mon.default_site = role
        if case["kind"] == "matcher":
            rows, cols = case["rows"], case["cols"]
            table = [[items[r * cols + c] for c in range(cols)] for r in range(rows)]
            obj = gmatch.WeightedBipartiteMatcher(list(range(rows)), [100 + c for c in range(cols)],
                                                  lambda f, t: table[f][t - 100])
            counters["probe.matcher_session"] = 1
            ops = ["T", "T", "T", "B", "C", "M"]
        else:
            init = None
            if case.get("init") is not None:
                lo, hi = case["init"]
                mf = min(it.final for it in items)
                if (lo is not None and lo > mf) or (hi is not None and hi < mf):
                    raise core.OutOfDomain("unsound initial bounds")     # can only arise while shrinking
                from graphtage.bounds import NEGATIVE_INFINITY, POSITIVE_INFINITY
                init = Range(NEGATIVE_INFINITY if lo is None else lo, POSITIVE_INFINITY if hi is None else hi)
                counters["probe.search_with_initial_bounds"] = 1
            obj = gsearch.IterativeTighteningSearch(iter(items), initial_bounds=init)
            counters["probe.search_session"] = 1
            ops = ["T", "T", "T", "B", "G", "M"]
        mon.site_of[id(obj)] = role
        self._container_obj = obj
        for step, (oi, arg) in enumerate(case["schedule"]):
            op = ops[oi % len(ops)]
            if op == "T":
                r = obj.tighten_bounds()
            elif op == "B":
                b = obj.bounds()
                r = (str(b.lower_bound), str(b.upper_bound))
            elif op == "C":
                r = obj.is_complete()
            elif op == "G":
                r = obj.goal_test()
            else:
                r = (len(obj.matching) if case["kind"] == "matcher" else getattr(obj.best_match, "uid", None))
            log.add(step, op, r)
            if mon.violation is not None:
                return
        first = None
        n = 0
        width = sum(hi - lo for lo, hi, _ in case["items"])
        while obj.tighten_bounds():
            n += 1
            if n > width + len(items) + 4:
                raise Violation("no-convergence", mon.site_of[id(obj)],
                                f"still reports progress after {n} calls; the items allow at most {width} shrinks")
            if mon.violation is not None:
                return
        counters["probe.liveness_loop_ran"] = 1
        b = obj.bounds()
        log.add("final", str(b.lower_bound), str(b.upper_bound), n)
        if not b.definitive():
            raise Violation("false-not-definitive", mon.site_of[id(obj)],
                            f"answered False on [{b.lower_bound},{b.upper_bound}] (items {case['items']})")
        for k, v in stats.items():
            if k.startswith("fault.") and v:
                counters[k] = v

    def _soundness(self, case, mon, log, counters):
        """Drive a seeded sample of observed objects (incl. ones the engine abandoned) to their single value; it must
        lie in every interval the object ever showed."""
        rng = random.Random(case["sample_seed"])
        recs = [r for r in mon.objs.values()]
        if len(recs) > 64:
            recs = rng.sample(recs, 64)
        for rec in recs:
            obj = rec[0]
            if getattr(obj, "valid", True) is False:
                counters["probe.invalid_edit_seen"] = 1
                continue
            lo0, hi0 = rec[2]
            was_open = lo0 != hi0
            n = 0
            while obj.tighten_bounds():
                n += 1
                if n > 100000:
                    raise Violation("no-convergence", type(obj).__name__, "still True after 100000 calls")
            if mon.violation is not None:
                return
            if getattr(obj, "valid", True) is False:
                continue
            b = obj.bounds()
            if was_open and n:
                counters["probe.abandoned_object_driven"] = counters.get("probe.abandoned_object_driven", 0) + 1
            if not b.definitive():
                raise Violation("false-not-definitive", type(obj).__name__,
                                f"tighten_bounds() answered False on [{b.lower_bound},{b.upper_bound}] of {obj!r:.300}")
            v = b.lower_bound
            for (lo, hi) in rec[3]:
                if v < lo or v > hi:
                    raise Violation("unsound", type(obj).__name__,
                                    f"converged to {v}, outside the interval [{lo},{hi}] it showed earlier "
                                    f"(history {rec[3]}) on {obj!r:.300}")

    # ------------------------------------------------------------------ shrinking
    def shrink_candidates(self, case):
        for s2 in ddmin_list(case["schedule"]):
            yield dict(case, schedule=s2)
        if case["kind"] == "edits":
            for wl in sched.shrink_workload(case["wl"]):
                yield dict(case, wl=wl)
            for k, simple in (("quiet0", False), ("clock", "frozen")):
                if case.get(k) != simple:
                    yield dict(case, **{k: simple})
        elif case["kind"] == "search":
            n = len(case["items"])
            for keep in ddmin_list(list(range(n))):
                if keep:
                    yield dict(case, items=[case["items"][i] for i in keep], plans=[case["plans"][i] for i in keep])
        else:
            rows, cols = case["rows"], case["cols"]
            for r in range(rows):
                if rows > 1:
                    keep = [i for i in range(rows * cols) if i // cols != r]
                    yield dict(case, rows=rows - 1, items=[case["items"][i] for i in keep],
                               plans=[case["plans"][i] for i in keep])
            for c in range(cols):
                if cols > 1:
                    keep = [i for i in range(rows * cols) if i % cols != c]
                    yield dict(case, cols=cols - 1, items=[case["items"][i] for i in keep],
                               plans=[case["plans"][i] for i in keep])
        if case["kind"] != "edits":
            for i, (lo, hi, f) in enumerate(case["items"]):
                if hi > lo:
                    yield dict(case, items=case["items"][:i] + [[f, f, f]] + case["items"][i + 1:])
        if case["obs_p"] != 1.0:
            yield dict(case, obs_p=1.0)


CHECK = C04()
