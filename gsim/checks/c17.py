"""C17 - Bound-driven search, ordering and separation are correct.

Simulation: the items are simulator-owned "slow nodes".  SimItem(lo, hi, final, plan) tightens soundly and follows
the Bounded docstring to the letter (True exactly when this call shrank the interval); *how* it tightens on each
call - which end moves, by how much - is decided by its plan, drawn from the schedule stream.  The identity order
used by BoundedComparator's tie-break (id()) is owned by the simulator too (module-global `id` in graphtage.bounds).

Faults injected: slow items (crawl by 1), stalled ends (one end does not move until the other has arrived),
one-sided convergence.  Items never change between calls made by the algorithm under test and never shrink while
answering False (both would break the protocol the algorithms are entitled to assume).
"""
import random

from .. import core
from ..core import EventLog, Violation, Streams
from ..driver import result, ddmin_list

core.use_repo()
from graphtage import bounds as gb  # noqa: E402
from graphtage import search as gs  # noqa: E402
from graphtage.bounds import Range  # noqa: E402

# ---------------------------------------------------------------------------------------------- id() seam
_ID = {"rng": None, "map": {}, "keep": []}


def sim_id(obj):
    k = _real_id(obj)
    if _ID["rng"] is None:
        return k              # not armed (another check imported this module): the builtin, nothing is retained
    v = _ID["map"].get(k)
    if v is None:
        v = _ID["rng"].getrandbits(48)
        _ID["map"][k] = v
        _ID["keep"].append(obj)  # keep alive for this run: a recycled address must not inherit an identity
    return v


_real_id = id
gb.id = sim_id  # module global shadows the builtin inside graphtage.bounds only


def reset_ids(seed):
    _ID["rng"] = random.Random(seed) if seed is not None else None
    _ID["map"] = {}
    _ID["keep"] = []


# ---------------------------------------------------------------------------------------------- the slow node
class SimItem:
    # an ordinary object on purpose (no __slots__): hashable, weakly referenceable, attributes can be attached

    def __init__(self, uid, lo, hi, final, plan, stats):
        assert lo <= final <= hi
        self.uid, self.lo, self.hi, self.final, self.plan = uid, lo, hi, final, plan
        self.i = 0
        self.calls = 0
        self.reads = 0
        self.stats = stats

    def bounds(self):
        self.reads += 1
        self.stats["reads"] += 1
        return Range(self.lo, self.hi)

    def tighten_bounds(self):
        self.calls += 1
        self.stats["calls"] += 1
        if self.lo == self.hi:
            return False
        mode, amt = self.plan[self.i % len(self.plan)]
        self.i += 1
        amt = max(1, amt)
        dl, du = self.final - self.lo, self.hi - self.final
        if mode == 3:                      # immediate convergence
            self.lo = self.hi = self.final
            self.stats["fault.jump_to_final"] += 1
        elif mode == 2:                    # both ends
            self.lo += min(dl, amt)
            self.hi -= min(du, amt)
            self.stats["fault.both_ends"] += 1
        elif mode == 0:                    # lower end only; upper stalls until lower has arrived
            if dl > 0:
                self.lo += min(dl, amt)
                self.stats["fault.stall_upper" if amt > 1 else "fault.crawl_lower"] += 1
            else:
                self.hi -= min(du, amt)
                self.stats["fault.other_end_after_arrival"] += 1
        else:                              # upper end only; lower stalls
            if du > 0:
                self.hi -= min(du, amt)
                self.stats["fault.stall_lower" if amt > 1 else "fault.crawl_upper"] += 1
            else:
                self.lo += min(dl, amt)
                self.stats["fault.other_end_after_arrival"] += 1
        return True

    def __repr__(self):
        return f"S{self.uid}[{self.lo},{self.hi}]->{self.final}"


ALGS = ["search", "search_lazy", "search_init", "sort", "min", "distinct"]
_SEARCH_PROBE = {}
core.count_calls(gs.IterativeTighteningSearch, "_delete_node", _SEARCH_PROBE, "deleted")   # reach probe only


class C17:
    ID = "C17"
    LEVEL = "exploration"
    HANG_IS_VIOLATION = True   # "... and all of these terminate"
    TIERS = {
        "quick": {"runs": 4000000, "budget_s": 150, "chunk": 10000, "run_timeout_s": 30},
        "thorough": {"runs": 40000000, "budget_s": 1500, "chunk": 40000, "run_timeout_s": 30},
    }
    RULE = ("cases: 0-8 simulator-owned items (spans from {0,1,2,3,5,10,100}, finals with ties, identical "
            "intervals, already-definitive items) x a per-item tightening plan (which end moves, by how much, per "
            "call; cyclic) x algorithm (search from a list / from a lazy generator / with sound initial bounds, "
            "bounds.sort, bounds.min_bounded, bounds.make_distinct) x a seeded identity order. non-trivial: >= 2 "
            "items whose initial intervals overlap and are not both definitive; distinct by hash of "
            "(algorithm, items, plans, initial bounds).")
    ASSUMPTIONS = [
        "items follow the Bounded protocol (sound, True iff the interval shrank) and are not touched by third "
        "parties between calls of the algorithm under test",
        "initial bounds handed to the search are sound (lower <= optimum <= upper), as its docstring requires",
        "brute force over `final` values is the reference",
    ]
    COMPONENTS = {"real": ["graphtage.search.IterativeTighteningSearch", "graphtage.bounds.sort / min_bounded / "
                           "make_distinct / BoundedComparator", "graphtage.fibonacci (used by both)",
                           "intervaltree (third party, uninstrumented)"],
                  "simulated": ["the bounded items (SimItem: seeded tightening plans)",
                                "object identity order (graphtage.bounds.id -> sim_id)"],
                  "stubbed": []}
    PROBES = ["search_deleted_node", "search_goal_fast_path", "search_initial_bounds_shortcut",
              "search_lazy_not_exhausted_first_call", "distinct_tightened_ge2", "compare_tightened_both",
              "tie_on_minimum", "identical_intervals", "single_item", "already_definitive_item"]

    # ------------------------------------------------------------------ generation
    def gen_case(self, seed, tier, index):
        st = Streams(seed)
        w, sc, env = st["workload"], st["schedule"], st["env"]
        n = w.choice([0, 1, 1, 2, 2, 3, 3, 4, 5, 6, 8])
        spans = w.choice([[0, 1, 2], [1, 2, 3], [2, 3, 5], [5, 10], [10, 100], [0, 1, 2, 3, 5, 10, 100]])
        base_dom = w.choice([2, 4, 8, 30])
        items = []
        for i in range(n):
            if items and w.random() < 0.2:
                lo, hi, _ = items[w.randrange(len(items))]       # identical interval
            else:
                lo = w.randrange(base_dom)
                hi = lo + w.choice(spans)
            if items and w.random() < 0.3:
                f = items[w.randrange(len(items))][2]             # tie on the final value, if it fits
                final = f if lo <= f <= hi else w.randint(lo, hi)
            else:
                final = w.choice([lo, hi, w.randint(lo, hi), w.randint(lo, hi)])
            items.append([lo, hi, final])
        plans = []
        style = sc.choice(["mixed", "mixed", "crawl", "stall", "jump"])
        for _ in range(n):
            k = sc.randint(1, 5)
            if style == "crawl":
                plan = [[sc.choice([0, 1]), 1] for _ in range(k)]
            elif style == "stall":
                e = sc.choice([0, 1])
                plan = [[e, sc.choice([1, 2, 5, 50])] for _ in range(k)]
            elif style == "jump":
                plan = [[sc.choice([2, 3]), sc.choice([1, 3, 50])] for _ in range(k)]
            else:
                plan = [[sc.choice([0, 1, 2, 3] if sc.random() < 0.3 else [0, 1, 2]), sc.choice([1, 1, 2, 3, 7, 50])]
                        for _ in range(k)]
            plans.append(plan)
        alg = w.choice(ALGS)
        init = None
        if alg == "search_init" and items:
            mf = min(it[2] for it in items)
            lo = mf - w.choice([0, 0, 1, 3, 50])
            hi = mf + w.choice([0, 0, 1, 3, 50])
            init = [None if w.random() < 0.15 else lo, None if w.random() < 0.15 else hi]
        return {"alg": alg, "items": items, "plans": plans, "init": init, "idseed": env.getrandbits(32)}

    # ------------------------------------------------------------------ execution
    def run_case(self, case):
        log = EventLog()
        stats = {k: 0 for k in ("reads", "calls", "fault.jump_to_final", "fault.both_ends", "fault.stall_upper",
                                "fault.stall_lower", "fault.crawl_lower", "fault.crawl_upper",
                                "fault.other_end_after_arrival")}
        reset_ids(case["idseed"])
        items = [SimItem(i, lo, hi, f, [tuple(p) for p in plan] or [(2, 1)], stats)
                 for i, ((lo, hi, f), plan) in enumerate(zip(case["items"], case["plans"]))]
        alg = case["alg"]
        finals = [it.final for it in items]
        counters = {}

        def probe(name, n=1):
            counters["probe." + name] = counters.get("probe." + name, 0) + n

        def fail(kind, detail):
            raise Violation(kind, alg, f"{detail} | items={case['items']} plans={case['plans']} init={case['init']}")

        nontrivial = False
        for i in range(len(items)):
            for j in range(i + 1, len(items)):
                a, b = case["items"][i], case["items"][j]
                if a[0] <= b[1] and b[0] <= a[1] and not (a[0] == a[1] and b[0] == b[1]):
                    nontrivial = True
                if a[:2] == b[:2]:
                    probe("identical_intervals")
        if len(items) == 1:
            probe("single_item")
        if any(a[0] == a[1] for a in case["items"]):
            probe("already_definitive_item")
        if finals and finals.count(min(finals)) > 1:
            probe("tie_on_minimum")

        if case["init"] is not None and items:
            lo, hi = case["init"]
            if (lo is not None and lo > min(finals)) or (hi is not None and hi < min(finals)):
                return result(ood=True, digest="ood")   # unsound initial bounds: outside the search's contract
        if not items:
            # an empty collection has no minimum, no order and nothing to separate: the property only asks for
            # termination here - whatever is returned or raised (None, a default, ValueError like min()) is fine
            try:
                if alg.startswith("search"):
                    gs.IterativeTighteningSearch(iter(()), initial_bounds=None).search()
                elif alg == "sort":
                    list(gb.sort([]))
                elif alg == "min":
                    gb.min_bounded(iter(()))
                else:
                    gb.make_distinct()
            except core.RunTimeout:
                raise
            except Exception:
                pass
            reset_ids(None)
            return result(digest="empty", counters={"alg." + alg: 1, "empty_collection": 1})
        try:
            if alg.startswith("search"):
                pulled = [0]

                def lazy():
                    for it in items:
                        pulled[0] += 1
                        yield it
                src = lazy() if alg != "search" else iter(list(items))
                init = None
                if case["init"] is not None:
                    lo, hi = case["init"]
                    init = Range(gb.NEGATIVE_INFINITY if lo is None else lo, gb.POSITIVE_INFINITY if hi is None else hi)
                s = gs.IterativeTighteningSearch(src, initial_bounds=init)
                _SEARCH_PROBE.clear()
                first = s.tighten_bounds()
                if alg != "search" and pulled[0] < len(items):
                    probe("search_lazy_not_exhausted_first_call")
                log.add("first", first, pulled[0])
                best = s.search()
                b = s.bounds()
                log.add("search", None if best is None else best.uid, b.lower_bound, b.upper_bound, stats["calls"])
                if _SEARCH_PROBE.get("deleted"):
                    probe("search_deleted_node", _SEARCH_PROBE["deleted"])
                if init is not None and pulled[0] < len(items):
                    probe("search_initial_bounds_shortcut")
                if items:
                    mf = min(finals)
                    if best is None:
                        fail("search-no-result", f"search() returned None for {len(items)} items (minimum final {mf})")
                    if best.final != mf:
                        fail("search-not-minimum", f"search() returned {best!r} (final {best.final}); minimum final is {mf}")
                    if not b.definitive() or b.lower_bound != mf:
                        fail("search-bound", f"search ended with bounds [{b.lower_bound},{b.upper_bound}]; expected the "
                                             f"single value {mf}")
                    try:
                        if s.goal_test():
                            probe("search_goal_fast_path")
                    except Exception:
                        pass
                else:
                    if best is not None:
                        fail("search-not-minimum", f"search() over no items returned {best!r}")
            elif alg == "sort":
                out = list(gb.sort(items))
                log.add("sort", [it.uid for it in out], stats["calls"])
                if sorted(it.uid for it in out) != list(range(len(items))):
                    fail("sort-not-permutation", f"sort returned uids {[it.uid for it in out]}")
                fs = [it.final for it in out]
                if any(x > y for x, y in zip(fs, fs[1:])):
                    fail("sort-order", f"sort yielded finals {fs} (uids {[it.uid for it in out]})")
                if sum(1 for it in items if it.calls and it.i) >= 2:
                    probe("compare_tightened_both")
            elif alg == "min":
                m = gb.min_bounded(iter(items))
                log.add("min", None if m is None else m.uid, stats["calls"])
                if items:
                    if m is None or not isinstance(m, SimItem):
                        fail("min-wrong", f"min_bounded returned {m!r}")
                    if m.final != min(finals):
                        fail("min-wrong", f"min_bounded returned {m!r} (final {m.final}); minimum final is {min(finals)}")
                    if sum(1 for it in items if it.i) >= 2:
                        probe("compare_tightened_both")
                elif m is not None:
                    fail("min-wrong", f"min_bounded over no items returned {m!r}")
            elif alg == "distinct":
                gb.make_distinct(*items)
                log.add("distinct", [(it.lo, it.hi) for it in items], stats["calls"])
                for i in range(len(items)):
                    for j in range(i + 1, len(items)):
                        a, b = items[i], items[j]
                        disjoint = a.hi < b.lo or b.hi < a.lo
                        both_def = a.lo == a.hi and b.lo == b.hi
                        if not (disjoint or both_def):
                            fail("distinct-overlap", f"after make_distinct {a!r} and {b!r} overlap and are not both "
                                                     f"single-valued")
                if sum(1 for it in items if it.i) >= 2:
                    probe("distinct_tightened_ge2")
            else:
                raise ValueError(alg)
            for it in items:
                if not (it.lo <= it.final <= it.hi):
                    raise AssertionError("SimItem became unsound: harness bug")
        except Violation as v:
            log.add("VIOLATION", v.kind)
            return result(violation=v.as_dict(), digest=log.digest(), trace=log.tail)
        except core.RunTimeout:
            raise
        except AssertionError as e:
            # graphtage's own asserts (e.g. search.py `assert self.best_match == best`) are internal errors
            site = core.graphtage_site(e)
            if "outside-graphtage" in site:
                raise
            return result(violation={"kind": "exception", "site": f"{alg}/{site}", "detail": core.short_tb(e)},
                          digest=log.digest(), trace=log.tail)
        except Exception as e:
            site = core.graphtage_site(e)
            if "outside-graphtage" in site and "intervaltree" not in core.short_tb(e, 3):
                raise
            return result(violation={"kind": "exception", "site": f"{alg}/{site}", "detail": core.short_tb(e)},
                          digest=log.digest(), trace=log.tail)
        for k, v in stats.items():
            if k.startswith("fault.") and v:
                counters[k] = v
        reset_ids(None)
        counters["item_tighten_calls"] = stats["calls"]
        counters["item_bounds_reads"] = stats["reads"]
        counters["alg." + alg] = 1
        nt = core.h64(alg, case["items"], case["plans"], case["init"]) if nontrivial else None
        return result(digest=log.digest(), nt=nt, counters=counters, trace=log.tail)

    # ------------------------------------------------------------------ shrinking
    def shrink_candidates(self, case):
        n = len(case["items"])
        idx = list(range(n))
        for keep in ddmin_list(idx):
            yield dict(case, items=[case["items"][i] for i in keep], plans=[case["plans"][i] for i in keep])
        for i in range(n):
            p = case["plans"][i]
            if len(p) > 1:
                for q in ddmin_list(p):
                    if q:
                        yield dict(case, plans=case["plans"][:i] + [q] + case["plans"][i + 1:])
            lo, hi, f = case["items"][i]
            cands = []
            if lo > 0:
                cands.append([0, hi - lo, f - lo])
                cands.append([lo - 1, hi - 1, f - 1])
            if hi - lo > 1:
                if f < hi:
                    cands.append([lo, hi - 1, f])
                if f > lo:
                    cands.append([lo + 1, hi, f])
            for c in cands:
                yield dict(case, items=case["items"][:i] + [c] + case["items"][i + 1:])
        if case["init"] is not None:
            yield dict(case, init=None, alg="search_lazy")


CHECK = C17()
