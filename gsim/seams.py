"""Seams the simulator owns: clock, standard streams, terminal geometry, cancellation.  All installed from outside;
nothing in /repo is touched.

* SimClock   - replaces `tqdm.std.time` (read by every tqdm() at construction: `self._time = time`).  Every read
               advances simulated time by the run's profile; a read can also raise a scheduled KeyboardInterrupt.
* SimStream  - replaces sys.stdout / sys.stderr.  fileno() answers 1 / 2 so that graphtage's StatusWriter takes its
               production path (buffered, through tqdm.write) - the path a StringIO can never reach.  close() is a
               no-op because main() closes its stdout.  Records every write; can raise at the n-th write.
* geometry   - tqdm asks the real terminal behind fd 2 for its size; pinned to 80x24.
* tqdm's monitor thread (the only thread in a graphtage process) is disabled, not simulated.
"""
import io
import os
import sys

import tqdm as _tqdm_pkg
import tqdm.std as _tqdm_std

_EVENT = [0]  # global event sequence number (orders writes on both streams and clock reads)


def next_event():
    _EVENT[0] += 1
    return _EVENT[0]


class Cancel:
    """A scheduled cancellation: KeyboardInterrupt at the n-th event of a seam ('clock', 'write', 'step')."""

    def __init__(self, seam=None, at=0):
        self.seam, self.at = seam, at
        self.count = 0
        self.fired = False

    def tick(self, seam):
        if self.seam == seam and not self.fired:
            self.count += 1
            if self.count >= self.at:
                self.fired = True
                raise KeyboardInterrupt()


NO_CANCEL = Cancel()


class LineCancel:
    """Cancellation at an ARBITRARY point: KeyboardInterrupt at the n-th *function entry* executed inside the package
    under test (sys.settrace 'call' events of frames whose code lives under `root_dir`).  Function entries are where
    CPython really checks for pending signals / asynchronous exceptions (the eval-breaker check of RESUME); raising at
    arbitrary *lines* would also hit points no real interrupt can reach - e.g. the first statement of a `finally:`
    block that restores state - and would flag every try/finally guard as broken (a false alarm that was made once,
    DESIGN 10.2).  With at=None it only counts, which is how a session learns how many such points a comparison has
    before it picks one."""

    seam = "line"

    def __init__(self, root_dir, at=None):
        self.root = root_dir
        self.at = at
        self.count = 0
        self.fired = False
        self.deferred = 0
        self.where = None

    def _global(self, frame, event, arg):
        if event == "call" and frame.f_code.co_filename.startswith(self.root):
            self.count += 1
            if self.at is not None and not self.fired and self.count >= self.at:
                import signal as _signal
                try:
                    masked = _signal.SIGINT in _signal.pthread_sigmask(_signal.SIG_BLOCK, ())
                except (AttributeError, ValueError, OSError):
                    masked = False
                if masked or _signal.getsignal(_signal.SIGINT) is not _signal.default_int_handler:
                    # the code under test has replaced / postponed the SIGINT handler or blocked the signal in this
                    # thread's mask: no KeyboardInterrupt can be delivered at this point of a real run - the
                    # cancellation arrives at the next point where it can
                    self.deferred += 1
                    return None
                self.fired = True
                self.where = f"{frame.f_code.co_filename.rsplit('/', 1)[-1]}:{frame.f_code.co_name}"
                sys.settrace(None)
                raise KeyboardInterrupt()
        return None

    def __enter__(self):
        sys.settrace(self._global)
        return self

    def __exit__(self, *a):
        sys.settrace(None)
        return False


PROFILES = {
    "frozen": 0.0,      # no time passes: bars never redraw after the first frame
    "1ms": 0.001,
    "0.2s": 0.2,        # beyond tqdm's mininterval (0.1 s): every update() redraws
    "3s": 3.0,          # beyond the delay=2.0 the loaders use
    "1h": 3600.0,       # clock jumps
}


class SimClock:
    def __init__(self):
        self.now = 1_000_000.0
        self.step = 0.0
        self.reads = 0
        self.elapsed = 0.0
        self.cancel = NO_CANCEL

    def configure(self, profile, cancel=NO_CANCEL):
        self.step = PROFILES[profile]
        self.cancel = cancel

    def time(self):
        self.reads += 1
        next_event()
        self.now += self.step
        self.elapsed += self.step
        self.cancel.tick("clock")
        return self.now


class _RawWriter(io.RawIOBase):
    """`stream.buffer`: the binary layer of a simulated standard stream - a real io.RawIOBase, so that it can be
    wrapped (io.TextIOWrapper(sys.stdout.buffer, ...)), flushed and 'closed' like the real thing.  Closing it does
    not close the simulated stream: the harness still has to read what was written."""

    def __init__(self, owner):
        super().__init__()
        self._owner = owner

    def write(self, b):
        return self._owner._write_bytes(bytes(b))

    def writable(self):
        return True

    def readable(self):
        return False

    def seekable(self):
        return False

    def fileno(self):
        return self._owner.fileno()

    def isatty(self):
        return self._owner.isatty()

    def close(self):
        return None

    @property
    def closed(self):
        return False

    def __del__(self):
        pass


class SimStream(io.TextIOBase):
    """A simulated standard stream backed by a REAL, private file descriptor (memfd / unlinked temp file, one per
    process).  Everything that reaches the stream - write(), writelines(), print(), `.buffer.write()`, and even
    `os.write(stream.fileno(), ...)` - lands in the same byte sequence in order, which is what the checks read back.
    The descriptor is what `fileno()` answers, for stdout and stderr alike, so graphtage's StatusWriter still takes
    its production path (buffered, through tqdm.write: it compares `out_stream.fileno()` with `sys.stdout.fileno()`).
    close() is a no-op because main() closes its stdout.  Can raise at the n-th write (cancellation / fault)."""
    mode = "w"

    def __init__(self, fd, name):
        super().__init__()
        self.label = fd              # 1 = stdout, 2 = stderr (a label only; the descriptor is private)
        self.name = name
        self.tty = False
        self.nwrites = 0
        self.close_calls = 0
        self.cancel = NO_CANCEL
        self.fail_at = None          # [n, exception]: raise at the n-th write from now
        self._fd = None
        self._keep = None
        self._pid = None
        self._errors = "strict"
        self.buffer = _RawWriter(self)

    # -- the descriptor (re-created after fork: workers must not share one file)
    def _ensure(self):
        if self._pid != os.getpid():
            try:
                self._fd = os.memfd_create(f"gsim-{self.name}")
            except (AttributeError, OSError):
                import tempfile
                f = tempfile.TemporaryFile()
                self._fd = os.dup(f.fileno())
                f.close()
            self._keep = os.dup(self._fd)      # the harness' own handle: survives a close() of the public one
            self._pid = os.getpid()
        return self._fd

    def renew(self):
        """Between independent runs: if the code under test closed the stream's descriptor (e.g. through
        `open(sys.stdout.fileno(), 'w')`), put the same descriptor number back, as a fresh process would have it."""
        self._ensure()
        try:
            os.fstat(self._fd)
        except OSError:
            os.dup2(self._keep, self._fd)

    @property
    def encoding(self):
        return "utf-8"

    @property
    def errors(self):
        return self._errors

    @property
    def closed(self):
        return False

    def reconfigure(self, *, encoding=None, errors=None, newline=None, line_buffering=None, write_through=None):
        if errors is not None:
            self._errors = errors

    def _write_bytes(self, b):
        self._ensure()
        os.lseek(self._keep, 0, os.SEEK_END)      # (one open file description: the offset is shared)
        os.write(self._fd, b)                     # EBADF here is what a real closed stdout would answer
        return len(b)

    def write(self, s):
        if not isinstance(s, str):
            raise TypeError(f"write() argument must be str, not {type(s).__name__}")
        self.nwrites += 1
        next_event()
        self.cancel.tick("write")
        if self.fail_at is not None:
            self.fail_at[0] -= 1
            if self.fail_at[0] <= 0:
                exc = self.fail_at[1]
                self.fail_at = None
                raise exc
        self._write_bytes(s.encode("utf-8", self._errors))
        return len(s)

    def flush(self):
        return None

    def isatty(self):
        return self.tty

    def fileno(self):
        return self._ensure()

    def close(self):
        self.close_calls += 1     # main() closes its stdout; a second call in the same process must still work

    def __del__(self):
        pass

    def writable(self):
        return True

    def readable(self):
        return False

    def seekable(self):
        return False

    # -- what the checks read back
    def mark(self):
        self._ensure()
        return os.fstat(self._keep).st_size

    def since(self, mark):
        self._ensure()
        size = os.fstat(self._keep).st_size
        if size <= mark:
            return ""
        return os.pread(self._keep, size - mark, mark).decode("utf-8", "replace")

    def drop(self):
        self._ensure()
        os.ftruncate(self._keep, 0)
        os.lseek(self._keep, 0, os.SEEK_SET)


def run_command(argv, embedded=False):
    """`python -m graphtage <args>`, in-process: executes graphtage/__main__.py the way `-m` does (runpy, sys.argv set,
    `__name__ == "__main__"`), so that no assumption is made about where `main` lives or how it is called.
    Returns (exit_status, text_python_would_print_to_stderr, escaped_exception).

    embedded=True is for in-process HISTORIES of commands (C07 part B): there the module must be imported once and
    its entry point called repeatedly, exactly like the installed console script (`graphtage =
    graphtage.__main__:main`, i.e. `sys.argv` set and `main()` called without arguments) would be by a caller that
    runs it several times - `runpy` would re-create the module's globals for every call and thereby wipe whatever
    state one call leaves behind at module level (a seeded change was missed that way, DESIGN 10.4).  Falls back to
    runpy when there is no such entry point."""
    import gc
    import runpy
    old = sys.argv
    old_exit = os._exit
    # runpy executes the BODY of graphtage/__main__.py on every call, a real process executes it once: what a module
    # body may legitimately set for its process (recursion limit, gc switch) is put back, so that it cannot compound
    # over the thousands of commands one simulator process runs
    old_limit, old_gc = sys.getrecursionlimit(), gc.isenabled()

    def _simulated_exit(status=0):          # os._exit() would take the simulator down with it
        raise SystemExit(status)
    if embedded:
        # a process has ONE sys.argv list object for its whole life (a `def main(argv=sys.argv)` default binds it at
        # import): the command line of the next command of a history goes INTO that list
        old = list(sys.argv)
        sys.argv[:] = list(argv)
    else:
        sys.argv = list(argv)
    os._exit = _simulated_exit
    entry = None
    if embedded:
        try:
            import importlib
            entry = getattr(importlib.import_module("graphtage.__main__"), "main", None)
        except Exception:                  # noqa: no importable entry point: the `-m` way still works
            entry = None
        if not callable(entry):
            entry = None
    try:
        try:
            if entry is not None:
                ret = entry()              # the console script: sys.exit(main())
            else:
                runpy.run_module("graphtage", run_name="__main__", alter_sys=False)
                ret = None                 # fell off the end of the module: exit status 0
        finally:
            if embedded:
                sys.argv[:] = old
            else:
                sys.argv = old
            os._exit = old_exit
            try:
                sys.setrecursionlimit(old_limit)
            except (RecursionError, ValueError):
                pass
            (gc.enable if old_gc else gc.disable)()
    except SystemExit as e:
        ret = e.code
    except BaseException as e:             # noqa: an uncaught exception: Python prints a traceback and exits 1
        from .core import RunTimeout
        if isinstance(e, RunTimeout):
            raise
        return 1, "", e
    # sys.exit() semantics: None -> 0, int -> that status, anything else is printed to stderr and the status is 1
    if ret is None:
        return 0, "", None
    if isinstance(ret, int):
        return ret & 0xFF, "", None
    return 1, str(ret) + "\n", None


class Seams:
    """Installed once per process (idempotent)."""

    def __init__(self):
        self.installed = False
        self.clock = SimClock()
        self.out = SimStream(1, "<stdout>")
        self.err = SimStream(2, "<stderr>")
        self.real = None

    def install(self):
        if self.installed:
            return self
        self.real = (sys.stdout, sys.stderr, _tqdm_std.time, _tqdm_std._screen_shape_wrapper,
                     _tqdm_pkg.tqdm.monitor_interval)
        sys.stdout = self.out
        sys.stderr = self.err
        _tqdm_std.time = self.clock.time
        _tqdm_std._screen_shape_wrapper = lambda: (lambda fp: (80, 24))
        _tqdm_pkg.tqdm.monitor_interval = 0
        self.installed = True
        return self

    def reinstall_streams(self):
        """For *independent-run* checks only: put the simulated streams back if graphtage (colorama) re-wrapped
        them, and their descriptors if graphtage closed them.  Never used inside an in-process history (C07 part B)."""
        sys.stdout = self.out
        sys.stderr = self.err
        self.out.renew()
        self.err.renew()

    def harness_print(self, *a):
        """The harness' own diagnostics bypass the simulated streams."""
        print(*a, file=self.real[0] if self.real else sys.__stdout__, flush=True)


SEAMS = Seams()
