"""Seams the simulator owns: clock, standard streams, terminal geometry, cancellation.  All installed from outside;
nothing in /repo is touched.

* SimClock   - replaces `tqdm.std.time` (read by every tqdm() at construction: `self._time = time`).  Every read
               advances simulated time by the run's profile; a read can also raise a scheduled KeyboardInterrupt.
* SimStream  - replaces sys.stdout / sys.stderr.  fileno() answers 1 / 2 so that graphtage's StatusWriter takes its
               production path (buffered, through tqdm.write) - the path a StringIO can never reach.  close() is a
               no-op because main() closes its stdout.  Records every write; can raise at the n-th write.
* geometry   - tqdm asks the real terminal behind fd 2 for its size; pinned to 80x24.
* tqdm's monitor thread (the only thread in a graphtage process) is disabled, not simulated.
"""
import io
import sys

import tqdm as _tqdm_pkg
import tqdm.std as _tqdm_std

_EVENT = [0]  # global event sequence number (orders writes on both streams and clock reads)


def next_event():
    _EVENT[0] += 1
    return _EVENT[0]


class Cancel:
    """A scheduled cancellation: KeyboardInterrupt at the n-th event of a seam ('clock', 'write', 'step')."""

    def __init__(self, seam=None, at=0):
        self.seam, self.at = seam, at
        self.count = 0
        self.fired = False

    def tick(self, seam):
        if self.seam == seam and not self.fired:
            self.count += 1
            if self.count >= self.at:
                self.fired = True
                raise KeyboardInterrupt()


NO_CANCEL = Cancel()


class LineCancel:
    """Cancellation at an ARBITRARY point: KeyboardInterrupt at the n-th *function entry* executed inside the package
    under test (sys.settrace 'call' events of frames whose code lives under `root_dir`).  Function entries are where
    CPython really checks for pending signals / asynchronous exceptions (the eval-breaker check of RESUME); raising at
    arbitrary *lines* would also hit points no real interrupt can reach - e.g. the first statement of a `finally:`
    block that restores state - and would flag every try/finally guard as broken (a false alarm that was made once,
    DESIGN 10.2).  With at=None it only counts, which is how a session learns how many such points a comparison has
    before it picks one."""

    seam = "line"

    def __init__(self, root_dir, at=None):
        self.root = root_dir
        self.at = at
        self.count = 0
        self.fired = False
        self.where = None

    def _global(self, frame, event, arg):
        if event == "call" and frame.f_code.co_filename.startswith(self.root):
            self.count += 1
            if self.at is not None and not self.fired and self.count >= self.at:
                self.fired = True
                self.where = f"{frame.f_code.co_filename.rsplit('/', 1)[-1]}:{frame.f_code.co_name}"
                sys.settrace(None)
                raise KeyboardInterrupt()
        return None

    def __enter__(self):
        sys.settrace(self._global)
        return self

    def __exit__(self, *a):
        sys.settrace(None)
        return False


PROFILES = {
    "frozen": 0.0,      # no time passes: bars never redraw after the first frame
    "1ms": 0.001,
    "0.2s": 0.2,        # beyond tqdm's mininterval (0.1 s): every update() redraws
    "3s": 3.0,          # beyond the delay=2.0 the loaders use
    "1h": 3600.0,       # clock jumps
}


class SimClock:
    def __init__(self):
        self.now = 1_000_000.0
        self.step = 0.0
        self.reads = 0
        self.elapsed = 0.0
        self.cancel = NO_CANCEL

    def configure(self, profile, cancel=NO_CANCEL):
        self.step = PROFILES[profile]
        self.cancel = cancel

    def time(self):
        self.reads += 1
        next_event()
        self.now += self.step
        self.elapsed += self.step
        self.cancel.tick("clock")
        return self.now


class SimStream(io.TextIOBase):
    """A text stream with the full TextIO surface (writelines, context manager, iteration ... come from
    io.TextIOBase, so that code which writes the same bytes through a different method still works)."""
    mode = "w"

    @property
    def encoding(self):
        return "utf-8"

    @property
    def errors(self):
        return "strict"

    @property
    def closed(self):
        return False

    def __init__(self, fd, name):
        super().__init__()
        self.fd = fd
        self.name = name
        self.tty = False
        self.chunks = []
        self.nwrites = 0
        self.close_calls = 0
        self.cancel = NO_CANCEL
        self.fail_at = None      # (n, exception) raise at the n-th write from now
        self.events = []

    def write(self, s):
        if not isinstance(s, str):
            raise TypeError(f"write() argument must be str, not {type(s).__name__}")
        self.nwrites += 1
        next_event()
        self.cancel.tick("write")
        if self.fail_at is not None:
            self.fail_at[0] -= 1
            if self.fail_at[0] <= 0:
                exc = self.fail_at[1]
                self.fail_at = None
                raise exc
        self.chunks.append(s)
        return len(s)

    def flush(self):
        return None

    def isatty(self):
        return self.tty

    def fileno(self):
        return self.fd

    def close(self):
        self.close_calls += 1     # main() closes its stdout; a second call in the same process must still work

    def __del__(self):
        pass

    def writable(self):
        return True

    def readable(self):
        return False

    def seekable(self):
        return False

    def mark(self):
        return len(self.chunks)

    def since(self, mark):
        return "".join(self.chunks[mark:])

    def drop(self):
        del self.chunks[:]


class Seams:
    """Installed once per process (idempotent)."""

    def __init__(self):
        self.installed = False
        self.clock = SimClock()
        self.out = SimStream(1, "<stdout>")
        self.err = SimStream(2, "<stderr>")
        self.real = None

    def install(self):
        if self.installed:
            return self
        self.real = (sys.stdout, sys.stderr, _tqdm_std.time, _tqdm_std._screen_shape_wrapper,
                     _tqdm_pkg.tqdm.monitor_interval)
        sys.stdout = self.out
        sys.stderr = self.err
        _tqdm_std.time = self.clock.time
        _tqdm_std._screen_shape_wrapper = lambda: (lambda fp: (80, 24))
        _tqdm_pkg.tqdm.monitor_interval = 0
        self.installed = True
        return self

    def reinstall_streams(self):
        """For *independent-run* checks only: put the simulated streams back if graphtage (colorama) re-wrapped
        them.  Never used inside an in-process history (C07 part B)."""
        sys.stdout = self.out
        sys.stderr = self.err

    def harness_print(self, *a):
        """The harness' own diagnostics bypass the simulated streams."""
        print(*a, file=self.real[0] if self.real else sys.__stdout__, flush=True)


SEAMS = Seams()
