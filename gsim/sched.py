"""Engine scheduler: drives graphtage's anytime, step-driven edit engine through its public Bounded/Edit API in an
order chosen by the simulator, and watches every tighten_bounds() of every Bounded class from outside.

Actors are the root edit and every edit discovered through edits(); discovery is itself a scheduled operation because
edits() has side effects.  One simulated step = one (op, actor, arg) triple of integers from the schedule stream,
interpreted against the current state (choice-sequence style: deleting or zeroing triples always yields a valid,
shorter schedule, which is what the minimiser relies on).

    B bounds()   T tighten_bounds()   C is_complete()   V valid   N has_non_zero_cost()
    E edits() consumed fully          K edits() consumed for k items, generator kept SUSPENDED
    R resume / drop a suspended generator
    D canonical diff() loop on this actor      X tighten to exhaustion (never reading bounds)
    Q flip DEFAULT_PRINTER.quiet               Z read bounds() twice
    F if is_complete() says True, list the sub-edits now and remember the listing (it must never change again)

While a generator of edit X is suspended only descendants of X and unrelated actors are eligible (that is what
graphtage itself does when it prints sub-edits while iterating the parent's edits()); touching X or an ancestor of X
while X's own iterator is open would be caller misuse and is not generated.
"""
import os
import random
import xml.etree.ElementTree as ET

from . import core
from . import gen
from .core import Violation

core.use_repo()
import graphtage  # noqa: E402
from graphtage import json as gjson, xml as gxml, csv as gcsv, plist as gplist  # noqa: E402
from graphtage import levenshtein as glev, tree as gtree, printer as gprinter  # noqa: E402
from graphtage.bounds import Range, Infinity  # noqa: E402
from graphtage.edits import ConstantCostEdit  # noqa: E402
from graphtage.tree import CompoundEdit  # noqa: E402

class _SharedPrinters:
    """The process-wide default printer object(s).  On the pinned tree tree.py, levenshtein.py and json.py each hold
    their own import-time binding of ONE shared object; a refactoring may legitimately change that, so the simulator
    flips `.quiet` on every distinct object reachable as `<module>.DEFAULT_PRINTER` instead of assuming one."""

    def objects(self):
        seen, out = set(), []
        for mod in (gtree, glev, gjson, gprinter):
            p = getattr(mod, "DEFAULT_PRINTER", None)
            if p is not None and id(p) not in seen and hasattr(p, "quiet"):
                seen.add(id(p))
                out.append(p)
        return out

    @property
    def quiet(self):
        objs = self.objects()
        return bool(objs and objs[0].quiet)

    @quiet.setter
    def quiet(self, flag):
        for p in self.objects():
            try:
                p.quiet = bool(flag)
            except (AttributeError, TypeError):
                pass             # a read-only view of the real printer: the real one is in the list as well


DEFAULT_PRINTER = _SharedPrinters()

OPS = ["B", "T", "C", "V", "N", "E", "K", "R", "D", "X", "Q", "Z", "F"]


# ---------------------------------------------------------------------------------------------- workloads
class _PyA:
    pass


class _PyB:
    pass


PY_CLASSES = {"A": _PyA, "B": _PyB}


def py_decode(v):
    """JSON-encoded description -> Python object graph for graphtage.pydiff (tuples, sets of small ints - whose
    iteration order does not depend on the hash seed - and instances of two small classes)."""
    if isinstance(v, list):
        return [py_decode(x) for x in v]
    if isinstance(v, dict):
        ks = set(v.keys())
        if ks == {"$set"} and isinstance(v["$set"], list) and all(isinstance(x, int) and not isinstance(x, bool)
                                                                   and 0 <= x < 64 for x in v["$set"]):
            return set(v["$set"])
        if ks == {"$tuple"} and isinstance(v["$tuple"], list):
            return tuple(py_decode(x) for x in v["$tuple"])
        if ks == {"$obj", "attrs"} and v["$obj"] in PY_CLASSES and isinstance(v["attrs"], dict) and \
                all(isinstance(k, str) and k.isidentifier() and k.isascii() and not k.startswith("_") for k in v["attrs"]):
            o = PY_CLASSES[v["$obj"]]()
            for k, x in v["attrs"].items():
                setattr(o, k, py_decode(x))
            return o
        return {k: py_decode(x) for k, x in v.items()}
    return v


def gen_py_value(w, depth=3):
    if depth <= 0 or w.random() < 0.2:
        return gen.gen_scalar(w)
    c = w.random()
    n = w.choice([0, 1, 2, 3, 4])
    if c < 0.3:
        return [gen_py_value(w, depth - 1) for _ in range(n)]
    if c < 0.45:
        return {"$tuple": [gen_py_value(w, depth - 1) for _ in range(n)]}
    if c < 0.65:
        return {"$set": sorted(set(w.randrange(8) for _ in range(n + 1)))}
    if c < 0.85:
        return {"$obj": w.choice(["A", "A", "B"]),
                "attrs": {w.choice(["x", "y", "z", "name"]): gen_py_value(w, depth - 1) for _ in range(n)}}
    return {w.choice(gen.KEY_POOL): gen_py_value(w, depth - 1) for _ in range(n)}


# ------------------------------------------------------------------ "ast" family: Python source -> pydiff.ast_to_tree
# A module is a list of statements in a small JSON IR (so that the generic structural shrinkers give valid smaller
# modules); rendering is tolerant: whatever a shrinker leaves behind still renders to source of the subset ast_to_tree
# understands (assignments, calls, attribute chains, subscripts, list/tuple/set/dict displays, `from m import a as b`).
_AST_NAMES = ["x", "y", "z", "foo", "bar", "cfg"]


def _ast_ident(v, default="x"):
    v = str(v) if isinstance(v, str) else default
    v = "".join(c for c in v if c.isalnum() or c == "_")
    if not v or not (v[0].isalpha() or v[0] == "_") or v in ("None", "True", "False"):
        return default
    import keyword
    return v + "_" if keyword.iskeyword(v) else v


def ast_expr_src(e, depth=0):
    if depth > 12:
        return "0"
    if e is None or isinstance(e, bool):
        return repr(e)
    if isinstance(e, int):
        return repr(abs(e))                 # no UnaryOp in the subset
    if isinstance(e, float):
        return repr(abs(e)) if e == e and abs(e) != float("inf") else "0.5"
    if isinstance(e, str):
        return repr(e)
    if isinstance(e, list):
        return "[" + ", ".join(ast_expr_src(x, depth + 1) for x in e) + "]"
    if isinstance(e, dict):
        if "$name" in e:
            return _ast_ident(e["$name"])
        if "$attr" in e:
            parts = e["$attr"] if isinstance(e["$attr"], list) and e["$attr"] else ["x"]
            return ".".join(_ast_ident(p_, "a") for p_ in parts)
        if "$call" in e:
            f = e["$call"]
            fs = ast_expr_src(f, depth + 1) if isinstance(f, dict) and ("$name" in f or "$attr" in f or "$call" in f) \
                else _ast_ident(f, "f")
            args = [ast_expr_src(x, depth + 1) for x in (e.get("a") if isinstance(e.get("a"), list) else [])]
            kw = e.get("kw") if isinstance(e.get("kw"), dict) else {}
            args += [f"{_ast_ident(k, 'k')}={ast_expr_src(v, depth + 1)}" for k, v in kw.items()]
            return f"{fs}({', '.join(args)})"
        if "$sub" in e:
            sv = e["$sub"] if isinstance(e["$sub"], list) and len(e["$sub"]) == 2 else [{"$name": "x"}, 0]
            base = sv[0] if isinstance(sv[0], dict) and ("$name" in sv[0] or "$attr" in sv[0]) else {"$name": "x"}
            return f"{ast_expr_src(base, depth + 1)}[{ast_expr_src(sv[1], depth + 1)}]"
        if "$tuple" in e:
            xs = e["$tuple"] if isinstance(e["$tuple"], list) else []
            return "(" + ", ".join(ast_expr_src(x, depth + 1) for x in xs) + ("," if len(xs) == 1 else "") + ")"
        if "$set" in e:
            xs = e["$set"] if isinstance(e["$set"], list) and e["$set"] else [0]
            return "{" + ", ".join(ast_expr_src(x if not isinstance(x, (list, dict)) else 0, depth + 1) for x in xs) + "}"
        return "{" + ", ".join(f"{str(k)!r}: {ast_expr_src(v, depth + 1)}" for k, v in e.items()) + "}"
    return "0"


def ast_module_src(stmts):
    lines = []
    for st in (stmts if isinstance(stmts, list) else [stmts]):
        if isinstance(st, dict) and st.get("k") == "import":
            names = st.get("n") if isinstance(st.get("n"), list) and st.get("n") else [["a", ""]]
            parts = []
            for nm in names:
                nm = nm if isinstance(nm, list) and nm else ["a", ""]
                n0 = _ast_ident(nm[0], "a")
                as_ = _ast_ident(nm[1], "") if len(nm) > 1 and nm[1] else ""
                parts.append(n0 + (f" as {as_}" if as_ else ""))
            mod = ".".join(_ast_ident(p_, "m") for p_ in str(st.get("m") or "m").split("."))
            lines.append(f"from {mod} import {', '.join(parts)}")
        elif isinstance(st, dict) and st.get("k") == "assign":
            ts = st.get("t") if isinstance(st.get("t"), list) and st.get("t") else ["x"]
            lines.append(" = ".join(_ast_ident(t_) for t_ in ts) + " = " + ast_expr_src(st.get("v")))
        elif isinstance(st, dict) and "$call" in st:
            lines.append(ast_expr_src(st))
        else:
            lines.append("x = " + ast_expr_src(st))
    return "\n".join(lines) + "\n"


def gen_ast_expr(w, depth):
    c = w.random()
    if depth <= 0 or c < 0.3:
        return w.choice([0, 1, 2, 7, 10, "a", "b", "ab", "x y", None, True, False, 1.5, {"$name": w.choice(_AST_NAMES)}])
    n = w.choice([0, 1, 2, 3])
    if c < 0.42:
        return [gen_ast_expr(w, depth - 1) for _ in range(n)]
    if c < 0.5:
        return {"$tuple": [gen_ast_expr(w, depth - 1) for _ in range(n)]}
    if c < 0.56:
        return {"$set": sorted(set(w.randrange(6) for _ in range(n + 1)))}
    if c < 0.68:
        return {w.choice(["k", "j", "id", "name"]): gen_ast_expr(w, depth - 1) for _ in range(n)}
    if c < 0.8:
        return {"$attr": [w.choice(_AST_NAMES)] + [w.choice(["a", "b", "c", "size"]) for _ in range(w.choice([1, 1, 2, 3]))]}
    if c < 0.88:
        return {"$sub": [{"$name": w.choice(_AST_NAMES)}, w.choice([0, 1, 2, "k"])]}
    f = w.choice(["f", "g", "make", {"$attr": ["os", "path", "join"]}, {"$attr": ["cfg", "get"]}])
    if w.random() < 0.1:
        f = {"$call": "f", "a": [w.randrange(3)], "kw": {}}
    return {"$call": f, "a": [gen_ast_expr(w, depth - 1) for _ in range(w.choice([0, 1, 2]))],
            "kw": {w.choice(["a", "b", "key", "n"]): gen_ast_expr(w, depth - 1) for _ in range(w.choice([0, 0, 1, 2]))}}


def gen_ast_stmt(w, depth=3):
    c = w.random()
    if c < 0.15:
        return {"k": "import", "m": w.choice(["m", "a.b", "os.path", "pkg.sub.mod"]),
                "n": [[w.choice(["a", "b", "c", "join"]), w.choice(["", "", "d", "e"])] for _ in range(w.choice([1, 2, 3]))]}
    if c < 0.3:
        e = gen_ast_expr(w, depth)
        return e if isinstance(e, dict) and "$call" in e else {"$call": "f", "a": [e], "kw": {}}
    return {"k": "assign", "t": [w.choice(_AST_NAMES) for _ in range(w.choice([1, 1, 1, 2]))], "v": gen_ast_expr(w, depth)}


def mutate_ast(w, v, intensity):
    """A few local changes anywhere in the IR: constants, names, attribute chains, argument lists, statements."""
    import copy
    v = copy.deepcopy(v)
    for _ in range(intensity):
        # collect (container, key) slots
        slots = []
        stack = [v]
        while stack:
            c = stack.pop()
            it = enumerate(c) if isinstance(c, list) else (c.items() if isinstance(c, dict) else ())
            for k, x in it:
                slots.append((c, k))
                if isinstance(x, (list, dict)):
                    stack.append(x)
        if not slots:
            break
        c, k = slots[w.randrange(len(slots))]
        x = c[k]
        r = w.random()
        if isinstance(c, list) and r < 0.2:
            del c[k]
        elif isinstance(c, list) and r < 0.4:
            c.insert(k, gen_ast_stmt(w, 2) if c is v else gen_ast_expr(w, 1))
        elif isinstance(x, bool) or x is None:
            c[k] = w.choice([None, True, False, 0])
        elif isinstance(x, int):
            c[k] = x + w.choice([1, 2, 10])
        elif isinstance(x, str):
            c[k] = w.choice(["a", "b", "c", "ab", x + "x", x[:-1] or "q"])
        elif isinstance(x, (list, dict)) and r < 0.6:
            c[k] = gen_ast_expr(w, 1) if c is not v else gen_ast_stmt(w, 2)
    if not isinstance(v, list) or not v:
        v = [gen_ast_stmt(w, 2)]
    return v


def gen_workload(w, families=("json", "json", "json", "json", "json", "json", "yaml", "yaml", "xml", "xml", "xml", "xml",
                                "csv", "csv", "plist", "plist", "py", "py", "ast"), scale=1):
    """Two documents of one family; the second is a mutation of the first (0.7), independent (0.25) or equal.
    scale=2 (half of the thorough-tier cases) draws deeper and wider documents."""
    fam = w.choice(families)
    opts = {"allow_key_edits": w.random() < 0.8, "auto_match_keys": w.random() < 0.7,
            "allow_list_edits": w.random() < 0.85, "allow_list_edits_when_same_length": w.random() < 0.8}
    rel = w.random()
    if fam in ("json", "yaml", "plist"):
        shape = w.random()
        if w.random() < 0.0015 and fam == "json":
            # a cheap but LARGE-COST pair: hundreds of long strings removed from (or inserted into) a list, so that the
            # accumulated cost passes 2**16 while the Levenshtein matrix stays one row (or column) wide
            n = w.choice([340, 420, 700])
            ln = w.choice([200, 170, 100]) if n < 700 else 100
            big = [f"{i:04d}" + "q" * ln for i in range(n)]
            keep = w.choice([[], big[:1], big[-1:], [big[0], big[-1]]])
            a, b = (big, keep) if w.random() < 0.7 else (keep, big)
            return {"family": fam, "a": a, "b": b, "opts": opts}
        if shape < 0.2 and fam != "plist":
            a, b = gen.gen_renamed_dicts(w)      # the matcher has to pair renamed keys; near-ties between pairings
            return {"family": fam, "a": a, "b": b, "opts": dict(opts, allow_key_edits=True)}
        if shape < 0.35:
            a = biased_lists(w)
        else:
            a = gen.gen_container(w, w.choice([2, 3, 3, 4] if scale == 1 else [3, 4, 4, 5]),
                                  "plist" if fam == "plist" else "json", w.choice([3, 4, 5] if scale == 1 else [4, 5, 7]))
        if rel < 0.7:
            b = gen.mutate(w, a, intensity=w.choice([1, 2, 3, 5]))
        elif rel < 0.95:
            b = gen.gen_container(w, w.choice([2, 3]), "plist" if fam == "plist" else "json") if shape >= 0.35 \
                else biased_lists(w)
        else:
            b = a
        if fam == "plist":
            a, b = gen._plist_clean(a), gen._plist_clean(b)
    elif fam == "ast":
        a = [gen_ast_stmt(w, 3 if scale == 1 else 4) for _ in range(w.randint(1, 4))]
        b = mutate_ast(w, a, w.choice([1, 2, 3, 5])) if rel < 0.75 else \
            ([gen_ast_stmt(w, 2) for _ in range(w.randint(1, 3))] if rel < 0.95 else a)
    elif fam == "py":
        a = [gen_py_value(w, 3) for _ in range(w.randint(1, 3))]
        b = gen.mutate(w, a, intensity=w.choice([1, 2, 3])) if rel < 0.75 else \
            ([gen_py_value(w, 2) for _ in range(w.randint(1, 3))] if rel < 0.95 else a)
    elif fam == "xml":
        a = gen.gen_xml(w, w.choice([1, 2, 2, 3] if scale == 1 else [2, 3, 3, 4]))
        b = gen.mutate_xml(w, a) if rel < 0.7 else (gen.gen_xml(w, 2) if rel < 0.95 else a)
    else:  # csv: rows of string cells
        rows = w.randint(1, 4)
        cols = w.randint(1, 4)
        a = [[w.choice(["a", "b", "ab", "1", "2", "", "x y", "a\u2028b", "f\x0cf"]) for _ in range(cols)]
             for _ in range(rows)]
        b = gen.mutate(w, a, intensity=2) if rel < 0.8 else a
        b = [[str(c) if not isinstance(c, (list, dict)) else "z" for c in row] if isinstance(row, list) else ["q"]
             for row in (b if isinstance(b, list) else [["q"]])]
    return {"family": fam, "a": a, "b": b, "opts": opts}


def biased_lists(w):
    """Shapes the survey showed to matter and that uniform sampling hits rarely: a changed nested container in the
    LAST position of a list, lists of lists of lists, equal-length lists, mappings whose values are lists."""
    def leaf():
        return w.choice([0, 1, 2, 5, 7, 9, "a", "b", "ab"])

    def lst(d):
        n = w.choice([0, 1, 2, 3, 4])
        out = [leaf() if (d <= 0 or w.random() < 0.5) else lst(d - 1) for _ in range(n)]
        if d > 0 and w.random() < 0.6:
            out.append(lst(d - 1))       # nested container last
        return out
    v = lst(w.choice([2, 3]))
    if w.random() < 0.25:
        return {"a": v, "b": lst(1)}
    return v if v else [[1, "a"], 2]


def build_options(opts):
    return graphtage.BuildOptions(**opts)


def build_tree(family, value, opts):
    o = build_options(opts)
    if family in ("json", "yaml", "plist"):
        t = gjson.build_tree(value, o)
        if family == "plist":
            t = gplist.PLISTNode(t)
        if family in ("yaml", "plist"):
            for n in t.dfs():
                if isinstance(n, graphtage.StringNode):
                    n.quoted = False
        return t
    if family == "py":
        from graphtage import pydiff
        return pydiff.build_tree(py_decode(value), o)
    if family == "ast":
        import ast as _ast
        from graphtage import pydiff
        return pydiff.ast_to_tree(_ast.parse(ast_module_src(value)), o)
    if family == "xml":
        return gxml.build_tree(gen.xml_element(value), o)
    if family == "csv":
        rows = []
        for row in value:
            cells = [gjson.build_tree(c, o) for c in row]
            for c in cells:
                if isinstance(c, graphtage.StringNode):
                    c.quoted = False
            rows.append(gcsv.CSVRow(cells))
        return gcsv.CSVNode(rows)
    raise ValueError(family)


def build_pair(wl):
    return build_tree(wl["family"], wl["a"], wl["opts"]), build_tree(wl["family"], wl["b"], wl["opts"])


def shrink_value(v):
    """Structural shrink candidates of a JSON-like value (drop elements / keys, replace subtrees by leaves, shorten
    strings, reduce integers)."""
    if isinstance(v, list):
        for i in range(len(v)):
            yield v[:i] + v[i + 1:]
        for i, x in enumerate(v):
            if isinstance(x, (list, dict)):
                yield v[:i] + [0] + v[i + 1:]
            for sx in shrink_value(x):
                yield v[:i] + [sx] + v[i + 1:]
    elif isinstance(v, dict):
        for k in list(v):
            yield {kk: vv for kk, vv in v.items() if kk != k}
        for k, x in v.items():
            if isinstance(x, (list, dict)):
                yield dict(v, **{k: 0})
            for sx in shrink_value(x):
                yield dict(v, **{k: sx})
    elif isinstance(v, str):
        if len(v) > 1:
            yield v[:len(v) // 2]
            yield v[1:]
        elif v and v != "a":
            yield "a"
    elif isinstance(v, bool) or v is None:
        return
    elif isinstance(v, int) and v not in (0, 1):
        yield 1
        yield 0


def shrink_xml(spec):
    tag, attrib, text, kids = spec
    for i in range(len(kids)):
        yield [tag, attrib, text, kids[:i] + kids[i + 1:]]
    for k in list(attrib):
        yield [tag, {a: b for a, b in attrib.items() if a != k}, text, kids]
    if text is not None:
        yield [tag, attrib, None, kids]
    for i, k in enumerate(kids):
        for sk in shrink_xml(k):
            yield [tag, attrib, text, kids[:i] + [sk] + kids[i + 1:]]


def shrink_workload(wl):
    for side in ("a", "b"):
        it = shrink_xml(wl[side]) if wl["family"] == "xml" else shrink_value(wl[side])
        for cand in it:
            if wl["family"] == "csv":
                if not (isinstance(cand, list) and all(isinstance(r, list) and all(isinstance(c, str) for c in r)
                                                       for r in cand)):
                    continue
            elif wl["family"] != "xml" and not isinstance(cand, (list, dict)):
                continue
            yield dict(wl, **{side: cand})
    for k, v in wl["opts"].items():
        if not v:
            yield dict(wl, opts=dict(wl["opts"], **{k: True}))


# ---------------------------------------------------------------------------------------------- serialisation
def path_map(root):
    m = {}
    stack = [(root, ())]
    while stack:
        node, p = stack.pop()
        if id(node) in m:
            continue
        m[id(node)] = p
        try:
            kids = list(node.children())
        except Exception:
            kids = []
        for i, k in enumerate(kids):
            stack.append((k, p + (i,)))
    return m


class Paths:
    def __init__(self, from_root, to_root):
        self.f = path_map(from_root)
        self.t = path_map(to_root)
        self.keep = (from_root, to_root)

    def key(self, node):
        if node is None:
            return None
        p = self.f.get(id(node))
        if p is not None:
            return ("F",) + p
        p = self.t.get(id(node))
        if p is not None:
            return ("T",) + p
        # not one of the two trees this session knows by identity: locate the node STRUCTURALLY, by walking up its
        # parent links (an edit may legitimately refer to an edited copy of the first tree instead of the tree itself)
        path = []
        n = node
        for _ in range(200):
            par = getattr(n, "parent", None)
            if par is None:
                break
            try:
                kids = list(par.children())
            except Exception:
                kids = []
            idx = next((i for i, k in enumerate(kids) if k is n), None)
            if idx is None:
                path = None
                break
            path.append(idx)
            n = par
        if path is not None:
            if id(n) in self.t:
                return ("T",) + self.t[id(n)] + tuple(reversed(path))
            if id(n) in self.f:
                return ("F",) + self.f[id(n)] + tuple(reversed(path))
            if isinstance(n, gtree.EditedTreeNode):      # the root of an edited copy stands for the first tree's root
                return ("F",) + tuple(reversed(path))
        payload = getattr(node, "object", None)
        return ("detached", type(node).__name__, repr(payload)[:40] if payload is not None else "")


def exhaust(edit, cap=100000):
    n = 0
    while edit.tighten_bounds():
        n += 1
        if n > cap:
            raise Violation("no-convergence", type(edit).__name__, f"tighten_bounds() still True after {cap} calls")
    return n


def shallow(edit, paths):
    return (type(edit).__name__, paths.key(edit.from_node), paths.key(getattr(edit, "to_node", None)))


def serialise(edit, paths, depth=0):
    """Canonical form of a finished edit: class, where it applies, final cost, children in edits() order."""
    if depth > 60:
        return ("...",)
    exhaust(edit)
    b = edit.bounds()
    cost = (int(b.lower_bound) if b.definitive() else (str(b.lower_bound), str(b.upper_bound)))
    kids = ()
    compound = isinstance(edit, CompoundEdit)
    if compound:
        kids = tuple(serialise(e, paths, depth + 1) for e in edit.edits())
    return shallow(edit, paths) + (cost, bool(edit.valid), compound, kids)


def annotations(ret, paths):
    """The EditedTreeNode annotations diff() leaves behind (removed / inserted / matched_to), by path."""
    out = []
    for n in ret.dfs():
        if isinstance(n, gtree.EditedTreeNode):
            out.append((paths.key(n), bool(n.removed), len(n.inserted), paths.key(n.matched_to)))
    return tuple(out)


# What a comparison writes on the EDITED COPIES it makes (tree.py, EditedTreeNode.__init__).  Finding one of these on a
# node of the caller's own trees means the comparison annotated its input.  Any other instance attribute that shows up
# (cached_property memos, `_total_size`, a public memo like `only_leaves`) is a cache: how a memo is spelled is not
# something the fingerprint may depend on (reviewer variants C07 r2/r3, DESIGN 10.7).
ANNOTATION_NAMES = ("removed", "inserted", "matched_to", "edit_list", "edit")


def _has_attr(n, k):
    try:
        return hasattr(n, k)
    except Exception:
        return False


def _get_attr(n, k):
    try:
        return getattr(n, k, None)
    except Exception:
        return None


def fingerprint(node):
    """Structural fingerprint of a tree: class, payload and its Python type, child order, parent-link consistency
    and the option flags - not memo fields such as _total_size."""
    out = []
    stack = [(node, None, 0)]
    while stack:
        n, parent, d = stack.pop()
        rec = [d, type(n).__name__]
        if hasattr(n, "object"):
            rec += [type(n.object).__name__, repr(n.object)]
        for flag in ("quoted", "allow_key_edits", "auto_match_keys", "allow_list_edits",
                     "allow_list_edits_when_same_length"):
            if flag in getattr(n, "__dict__", {}):
                rec.append((flag, n.__dict__[flag]))
        rec.append(("parent_is_container", parent is None or n.parent is parent))
        rec.append(("edited", isinstance(n, gtree.EditedTreeNode)))
        rec.append(tuple(k for k in ANNOTATION_NAMES if _has_attr(n, k)))
        if isinstance(n, gtree.EditedTreeNode):
            # an edited tree (the result of an earlier comparison) handed to another comparison: what its
            # annotations SAY is part of the tree (read through the public attributes, wherever they are stored)
            rec.append(("annotations", bool(_get_attr(n, "removed")), len(_get_attr(n, "inserted") or ()),
                        _get_attr(n, "matched_to") is not None, len(_get_attr(n, "edit_list") or ()),
                        type(_get_attr(n, "edit")).__name__))
        out.append(tuple(rec))
        try:
            kids = list(n.children())
        except Exception:
            kids = []
        for k in reversed(kids):
            stack.append((k, n, d + 1))
    return tuple(out)


# ---------------------------------------------------------------------------------------------- C04 monitor
def _le(a, b):
    return a <= b


class Monitor:
    """Wraps every tighten_bounds of every Bounded class from outside.  Reading bounds() is NOT free of side effects in
    this code base, so observations are themselves scheduled (seeded) events with a per-run probability."""

    def __init__(self, obs_p, obs_seed, log=None):
        refresh_wrappers()
        self.p = obs_p
        self.rng = random.Random(obs_seed)
        self.objs = {}       # id -> [obj, first, last, intervals(list, capped), n_obs]
        self.calls = 0
        self.observations = 0
        self.violation = None
        self.depth = 0
        self.log = log
        self.multi = 0
        self.site_of = {}        # id(object) -> role-based site name (robust against class renames), e.g. the
        #                          container of a matcher / search session; everything else is named by its class
        self.by_class = {}       # reach: outermost refinement steps seen per concrete class
        self.default_site = None  # container sessions: every monitored object belongs to the container under test
        self.active = set()      # ids of objects with a tighten_bounds() call in progress
        self.known = set()       # (kind, site) of listed findings
        self.known_hit = None

    def decide(self):
        if self.p >= 1.0:
            return True
        if self.p <= 0.0:
            return False
        return self.rng.random() < self.p

    def _fail(self, kind, obj, detail):
        site = self.site_of.get(id(obj)) or self.default_site or type(obj).__name__
        if (kind, site) in self.known:
            # a listed finding must not end the session (it would mask whatever else happens in it)
            if self.known_hit is None:
                self.known_hit = Violation(kind, site, detail)
            return
        if self.violation is None:
            self.violation = Violation(kind, site, detail)

    def observe(self, obj):
        self.observations += 1
        b = obj.bounds()
        return (b.lower_bound, b.upper_bound)

    def note(self, obj, iv, where):
        valid = getattr(obj, "valid", True)
        if valid is False:
            return None
        lo, hi = iv
        rec = self.objs.get(id(obj))
        if rec is None:
            self.objs[id(obj)] = [obj, iv, iv, [iv], 1]
            if isinstance(obj, gtree.Edit) and not isinstance(lo, Infinity) and lo < 0:
                self._fail("negative-lower", obj, f"{where}: lower bound {lo} < 0 on {obj!r:.200}")
            return None
        plo, phi = rec[2]
        if lo < plo or hi > phi:
            self._fail("widened", obj, f"{where}: interval went from [{plo},{phi}] to [{lo},{hi}] on {obj!r:.300}")
        if iv != rec[2]:
            rec[2] = iv
            if len(rec[3]) < 24:
                rec[3].append(iv)
            if rec[4] == 1:
                self.multi += 1
            rec[4] += 1
        return None

    def around(self, obj, orig):
        if id(obj) in self.active:
            # an inner call on the same object (self-recursion, or a raw step reached through super() inside a
            # repeat-until-tightened wrapper): part of the step in progress, not a refinement step of its own
            return orig(obj)
        self.active.add(id(obj))
        try:
            return self._around(obj, orig)
        finally:
            self.active.discard(id(obj))

    def _around(self, obj, orig):
        self.calls += 1
        cn = type(obj).__name__
        self.by_class[cn] = self.by_class.get(cn, 0) + 1
        before = after = None
        if self.decide():
            before = self.observe(obj)
            self.note(obj, before, "before tighten_bounds()")
        r = orig(obj)
        if self.decide():
            after = self.observe(obj)
            self.note(obj, after, "after tighten_bounds()")
        if getattr(obj, "valid", True) is not False:
            if r and before is not None and after is not None:
                shrank = (after[0] > before[0] or after[1] < before[1]) and after[0] >= before[0] and after[1] <= before[1]
                if not shrank:
                    self._fail("true-without-shrink", obj,
                               f"tighten_bounds() returned True but the interval went from [{before[0]},{before[1]}] to "
                               f"[{after[0]},{after[1]}] on {obj!r:.300}")
            if (not r) and after is not None:
                if not (after[0] == after[1] and not isinstance(after[0], Infinity)):
                    self._fail("false-not-definitive", obj,
                               f"tighten_bounds() returned False on the non-definitive interval [{after[0]},{after[1]}] "
                               f"of {obj!r:.300}")
        return r


MON = None  # the active monitor (None: wrappers are pass-through)


_WRAPPED = []     # every class that carries a monitor wrapper in its own __dict__


def _is_wrapper(fn):
    return bool(getattr(fn, "_gsim_wrapped", False))


def _wrap_class(cls, orig=None):
    """Puts a monitor wrapper for tighten_bounds into cls.__dict__.  `orig` is the function the wrapper delegates to:
    cls's own, or (a public class that inherits its step from a private mixin) the one its MRO resolves to."""
    if orig is None:
        orig = cls.__dict__["tighten_bounds"]
    if _is_wrapper(orig):
        return

    plain = isinstance(orig, type(lambda: 0))

    def tighten_bounds(self, *args, **kwargs):
        # the original may be any descriptor (a plain function on the pinned tree): bind it the way Python would
        call = (lambda *a, **k: orig(self, *a, **k)) if plain else orig.__get__(self, type(self))
        m = MON
        if m is None or args or kwargs:
            return call(*args, **kwargs)
        if not _is_wrapper(getattr(type(self), "tighten_bounds", None)):
            # the object's OWN (most derived) step is a function the monitor has not wrapped, and it reached this one
            # through super(): what this inner call returns is seen by nobody - it is not the object's step
            return call()
        return m.around(self, lambda _obj: call())
    tighten_bounds._gsim_wrapped = True
    tighten_bounds.__wrapped__ = orig
    tighten_bounds.__doc__ = getattr(orig, "__doc__", None)
    cls.tighten_bounds = tighten_bounds
    _WRAPPED.append(cls)


def _owner_of(cls):
    for k in cls.__mro__:
        if "tighten_bounds" in k.__dict__:
            return k
    return None


def refresh_wrappers():
    """At the start of every run: a class DERIVED from a monitored class is an exposed bounded object too, whatever
    its name and wherever it was defined (a private subclass, a module imported on demand).  If it overrides
    tighten_bounds, its override is the object's step and gets the wrapper (reviewer variants C04 r4v1, r4v3)."""
    seen = set()
    stack = list(_WRAPPED)
    while stack:
        k = stack.pop()
        try:
            subs = k.__subclasses__()
        except Exception:
            continue
        for sub in subs:
            if id(sub) in seen:
                continue
            seen.add(id(sub))
            fn = sub.__dict__.get("tighten_bounds")
            if fn is not None and not _is_wrapper(fn) and not getattr(fn, "__isabstractmethod__", False):
                _wrap_class(sub)
            stack.append(sub)


def install_monitor_wrappers():
    """Wraps tighten_bounds of every class of the package that offers the Bounded pair (bounds + tighten_bounds).  Only
    modules that `import graphtage` itself loaded, plus the file-type / pydiff modules, are looked at: importing
    *every* file of the package would execute whatever scripts live there."""
    import importlib
    for extra in ("graphtage.pydiff", "graphtage.dataclasses", "graphtage.ast", "graphtage.csv", "graphtage.plist",
                  "graphtage.xml", "graphtage.yaml", "graphtage.json", "graphtage.search", "graphtage.matching"):
        try:
            importlib.import_module(extra)
        except BaseException:      # noqa: a missing or renamed module is not the monitor's business
            pass
    _warm_up()
    import sys as _sys
    seen = []
    for modname, mod in sorted(_sys.modules.items()):
        if mod is None or not (modname == "graphtage" or modname.startswith("graphtage.")) or modname.endswith(".__main__"):
            continue
        for name, obj in list(vars(mod).items()):
            # (graphtage/__init__.py rewrites __module__ of many classes to 'graphtage': do not compare it with the
            #  defining module - any class of the package that offers the step is taken, once)
            if not (isinstance(obj, type) and str(getattr(obj, "__module__", "")).split(".")[0] == "graphtage"):
                continue
            if obj.__name__.startswith("_") or obj.__name__.endswith("PARTIAL_IMPLEMENTATION") \
                    or getattr(obj, "_is_protocol", False):
                continue         # a private helper class is not one of the bounded objects the engine *exposes*
            owner = _owner_of(obj)
            if owner is None or not callable(getattr(obj, "bounds", None)):
                continue         # no step at all / a step helper without bounds() is not a Bounded object
            fn = owner.__dict__["tighten_bounds"]
            if getattr(fn, "__isabstractmethod__", False) or getattr(owner, "_is_protocol", False):
                continue
            if _is_wrapper(fn):
                seen.append(obj.__name__) if owner is obj else None
                continue
            if owner is obj:
                _wrap_class(obj)
                seen.append(obj.__name__)
            elif owner.__name__.startswith("_") or str(getattr(owner, "__module__", "")).split(".")[0] != "graphtage":
                # a public class that takes its step from a private mixin / base: the wrapper goes on the public class
                _wrap_class(obj, fn)
                seen.append(obj.__name__)
            # else: inherited from another public class of the package, which carries (or will carry) the wrapper
    refresh_wrappers()
    return sorted(set(seen))


def _warm_up():
    """One tiny comparison per document family before the classes are collected, so that modules the package imports
    on demand (function-level imports) are loaded in EVERY process before its first run - which classes carry a
    wrapper must not depend on what a worker happened to execute earlier."""
    if os.environ.get("GSIM_NO_WARMUP"):
        return          # C07 children: nothing of graphtage may run before the history itself
    try:
        opts = {"allow_key_edits": True, "auto_match_keys": True, "allow_list_edits": True,
                "allow_list_edits_when_same_length": True}
        samples = [("json", {"a": [1, "x"], "b": {"c": None}}, {"a": [2, "xy", 3], "d": {"c": True}}),
                   ("plist", {"a": [1, "x"]}, {"a": ["x", 2], "b": 1}),
                   ("csv", [["a", "b"], ["c", "d"]], [["a", "x"], ["c"]]),
                   ("xml", ["r", {"k": "v"}, "text", [["c", {}, "t1", []], ["d", {}, "", []]]],
                    ["r", {"k": "w", "j": "u"}, "other", [["c", {}, "t2", []]]]),
                   ("py", [{"$obj": "A", "attrs": {"x": 1}}, {"$tuple": [1, 2]}, {"$set": [1, 2]}],
                    [{"$obj": "A", "attrs": {"x": 2, "y": [1]}}, {"$tuple": [1]}, {"$set": [2, 3]}]),
                   ("ast", [{"k": "assign", "t": ["x"], "v": {"$call": "f", "a": [1], "kw": {"k": {"$attr": ["a", "b"]}}}},
                            {"k": "import", "m": "m", "n": [["a", "b"]]}],
                    [{"k": "assign", "t": ["x"], "v": {"$call": "f", "a": [2], "kw": {"k": {"$sub": [{"$name": "a"}, 0]}}}},
                     {"k": "import", "m": "m", "n": [["a", "c"], ["d", ""]]}])]
        q = DEFAULT_PRINTER.quiet
        DEFAULT_PRINTER.quiet = True
        try:
            for fam, a, b in samples:
                try:
                    ta, tb = build_tree(fam, a, opts), build_tree(fam, b, opts)
                    d = ta.diff(tb)
                    d.edited_cost()
                    for _ in ta.get_all_edits(tb):
                        pass
                except Exception:       # noqa: a family this tree cannot build is not the monitor's business
                    pass
        finally:
            DEFAULT_PRINTER.quiet = q
    except BaseException:               # noqa
        pass
    # the warm-up must leave no process-wide state behind that the first run would otherwise create itself: tqdm makes
    # its class-level write lock (a multiprocessing RLock) on first use - created HERE it would be inherited by, and
    # shared between, all forked workers
    try:
        import tqdm as _tqdm
        import tqdm.std as _tqdm_std
        _tqdm.tqdm._instances.clear()
        if "_lock" in _tqdm.tqdm.__dict__:
            del _tqdm.tqdm._lock
        if "mp_lock" in _tqdm_std.TqdmDefaultWriteLock.__dict__:
            del _tqdm_std.TqdmDefaultWriteLock.mp_lock
    except BaseException:               # noqa
        pass


WRAPPED_CLASSES = install_monitor_wrappers()


# ---------------------------------------------------------------------------------------------- the session
class Actor:
    __slots__ = ("edit", "parent", "idx", "open_gens")

    def __init__(self, edit, parent, idx):
        self.edit, self.parent, self.idx = edit, parent, idx
        self.open_gens = 0


class Session:
    def __init__(self, wl, log, counters, step_hook=None):
        self.wl = wl
        self.log = log
        self.counters = counters
        self.from_tree, self.to_tree = build_pair(wl)
        self.ret = self.from_tree.make_edited()
        self.root = self.ret.edits(self.to_tree)
        self.paths = Paths(self.ret, self.to_tree)
        self.actors = [Actor(self.root, None, 0)]
        self.by_id = {id(self.root): 0}
        self.suspended = []     # [actor_idx, generator, collected, finished]
        self.resume_records = []  # (actor_idx, collected items)
        self.step_hook = step_hook
        self.steps = 0
        self.t_since_b = {}     # actor idx -> consecutive T without B (probe)
        self.n_answers = []     # (actor idx, answer of has_non_zero_cost()) in call order
        self.frozen = []        # (actor idx, shallow listing taken when is_complete() answered True)

    def bump(self, k, n=1):
        self.counters[k] = self.counters.get(k, 0) + n

    # -- actors
    def add_actor(self, edit, parent_idx):
        i = self.by_id.get(id(edit))
        if i is not None:
            return i
        if len(self.actors) >= 400:
            return None
        i = len(self.actors)
        self.actors.append(Actor(edit, parent_idx, i))
        self.by_id[id(edit)] = i
        return i

    def blocked(self):
        """Actors with an open generator, and all their ancestors."""
        out = set()
        for a in self.actors:
            if a.open_gens > 0:
                j = a.idx
                while j is not None and j not in out:
                    out.add(j)
                    j = self.actors[j].parent
        return out

    def eligible(self, interesting_only):
        blocked = self.blocked()
        el = [a for a in self.actors if a.idx not in blocked]
        if interesting_only:
            el2 = [a for a in el if not isinstance(a.edit, ConstantCostEdit)]
            if el2:
                return el2
        return el

    # -- one step
    def step(self, op, ai, arg):
        self.steps += 1
        if self.step_hook is not None:
            self.step_hook()
        if op == "Q":
            DEFAULT_PRINTER.quiet = not DEFAULT_PRINTER.quiet
            self.log.add(self.steps, "Q", DEFAULT_PRINTER.quiet)
            self.bump("probe.quiet_flipped_midrun")
            self.bump("fault.quiet_flipped_midrun")
            return
        if op == "R":
            if not self.suspended:
                self.log.add(self.steps, "R-skip")
                return
            rec = self.suspended[ai % len(self.suspended)]
            self._pull(rec, None if arg % 4 == 3 else arg % 4, drop=(arg % 7 == 6))
            return
        el = self.eligible(arg & 1)
        if not el:
            self.log.add(self.steps, op, "no-eligible-actor")
            return
        a = el[ai % len(el)]
        e = a.edit
        tag = f"{a.idx}:{type(e).__name__}"
        if op == "B":
            b = e.bounds()
            self.t_since_b[a.idx] = 0
            self.log.add(self.steps, "B", tag, b.lower_bound, b.upper_bound)
        elif op == "Z":
            b1 = e.bounds()
            b2 = e.bounds()
            self.t_since_b[a.idx] = 0
            self.log.add(self.steps, "Z", tag, b1.lower_bound, b1.upper_bound, b2.lower_bound, b2.upper_bound)
        elif op == "T":
            r = e.tighten_bounds()
            n = self.t_since_b.get(a.idx, 0) + 1
            self.t_since_b[a.idx] = n
            if n >= 2 and isinstance(e, CompoundEdit):
                self.bump("probe.compound_tightened_twice_without_bounds_read")
            try:                                   # a reach probe reads a private attribute: it must never raise
                if getattr(e, "edit_matrix", 0) is None:
                    self.bump("probe.tighten_after_cleanup")
            except Exception:
                pass
            if isinstance(e, CompoundEdit):
                self.bump("compound_T")
            self.log.add(self.steps, "T", tag, r)
        elif op == "C":
            r = e.is_complete() if hasattr(e, "is_complete") else None
            self.log.add(self.steps, "C", tag, r)
        elif op == "V":
            self.log.add(self.steps, "V", tag, e.valid)
        elif op == "N":
            r = e.has_non_zero_cost()
            self.n_answers.append((a.idx, bool(r)))
            self.log.add(self.steps, "N", tag, r)
        elif op == "E":
            if isinstance(e, CompoundEdit):
                kids = list(e.edits())
                for k in kids:
                    self.add_actor(k, a.idx)
                self.log.add(self.steps, "E", tag, len(kids))
            else:
                self.log.add(self.steps, "E-skip", tag)
        elif op == "K":
            if isinstance(e, CompoundEdit):
                rec = [a.idx, iter(e.edits()), [], False]     # edits() may return any iterable
                a.open_gens += 1
                self.suspended.append(rec)
                self.bump("probe.generator_suspended")
                self.bump("fault.iterator_suspended")
                self._pull(rec, arg % 4, drop=False)
            else:
                self.log.add(self.steps, "K-skip", tag)
        elif op == "F":
            if isinstance(e, CompoundEdit) and hasattr(e, "is_complete") and e.is_complete():
                kids = list(e.edits())
                for k in kids:
                    self.add_actor(k, a.idx)
                self.frozen.append((a.idx, [shallow(k, self.paths) for k in kids]))
                self.bump("probe.complete_listing_frozen")
                self.log.add(self.steps, "F", tag, len(kids))
            else:
                self.log.add(self.steps, "F-skip", tag)
        elif op == "D":
            n = 0
            while e.valid and not e.is_complete() and e.tighten_bounds():
                _ = e.bounds()
                n += 1
            self.t_since_b[a.idx] = 0
            self.log.add(self.steps, "D", tag, n)
        elif op == "X":
            n = exhaust(e)
            self.log.add(self.steps, "X", tag, n)
        else:
            raise ValueError(op)

    def _pull(self, rec, k, drop):
        ai, g, got, _ = rec
        a = self.actors[ai]
        if drop:
            if hasattr(g, "close"):
                g.close()          # a generator; other iterators (itertools.chain) are simply dropped
            rec[3] = True
            self.bump("fault.iterator_dropped")
            self.log.add(self.steps, "R-drop", ai, len(got))
        else:
            n = 0
            finished = False
            while k is None or n < k:
                try:
                    item = next(g)
                except StopIteration:
                    finished = True
                    break
                got.append(item)
                self.add_actor(item, ai)
                n += 1
            if got and n and self.steps and len(got) > n:
                self.bump("probe.generator_resumed")
            self.log.add(self.steps, "K/R", ai, n, finished)
            if finished:
                rec[3] = True
                self.resume_records.append((ai, list(got)))
        if rec[3]:
            a.open_gens -= 1
            self.suspended.remove(rec)

    def finish_generators(self):
        for rec in list(self.suspended):
            self._pull(rec, None, drop=False)

    # -- outcome
    def outcome(self):
        """Drive the root to completion the canonical way, then read cost and script."""
        e = self.root
        while e.valid and not e.is_complete() and e.tighten_bounds():
            _ = e.bounds()
        exhaust(e)
        b = e.bounds()
        script = serialise(e, self.paths)
        return (b.lower_bound, b.upper_bound), script

    def check_frozen_listings(self):
        """is_complete() == True promises that further refinement will not change what edits() lists."""
        for ai, snap in self.frozen:
            e = self.actors[ai].edit
            now = [shallow(x, self.paths) for x in e.edits()]
            if now != snap:
                raise Violation("complete-listing-changed", type(e).__name__,
                                f"is_complete() answered True and edits() listed {snap}, but after further refinement "
                                f"edits() lists {now} for {e!r:.200}")

    def check_non_zero_answers(self):
        """has_non_zero_cost() is a view of the final cost: whenever it was asked, its answer must be (final cost > 0)."""
        for ai, ans in self.n_answers:
            e = self.actors[ai].edit
            if e.valid is False:
                continue
            exhaust(e)
            b = e.bounds()
            if not b.definitive():
                continue
            if ans != (b.lower_bound > 0):
                raise Violation("non-zero-answer-wrong", type(e).__name__,
                                f"has_non_zero_cost() answered {ans} at some point of this history, but the final cost "
                                f"of {e!r:.200} is {b.lower_bound}")

    def check_resumed_listings(self):
        for ai, got in self.resume_records:
            e = self.actors[ai].edit
            full = [shallow(x, self.paths) for x in e.edits()]
            mine = [shallow(x, self.paths) for x in got]
            if full != mine:
                raise Violation("resumed-listing-differs", type(e).__name__,
                                f"a partially consumed and later resumed edits() of {e!r:.200} listed {mine} but an "
                                f"uninterrupted edits() lists {full}")


def decode_ops(schedule, opw):
    """schedule: list of [op_int, actor_int, arg_int]; opw: list of [op, weight] -> yields (op, ai, arg)."""
    total = sum(w for _, w in opw) or 1
    for oi, ai, arg in schedule:
        x = (oi % 10000) / 10000.0 * total
        acc = 0.0
        op = opw[-1][0]
        for name, w in opw:
            acc += w
            if x < acc:
                op = name
                break
        yield op, ai, arg


def gen_opw(sc):
    opw = [["B", sc.uniform(0, 3)], ["T", sc.uniform(1, 6)], ["C", sc.uniform(0, 1)], ["V", sc.uniform(0, 1)],
           ["N", sc.uniform(0, 1)], ["E", sc.uniform(0.2, 2)], ["K", sc.uniform(0, 1.5)], ["R", sc.uniform(0, 1.5)],
           ["D", sc.uniform(0, 0.6)], ["X", sc.uniform(0, 0.4)], ["Q", sc.choice([0, 0, 0.3, 1.0])],
           ["Z", sc.uniform(0, 0.5)], ["F", sc.uniform(0, 0.8)]]
    if sc.random() < 0.3:   # a run in which nobody ever looks
        for o in opw:
            if o[0] in ("B", "Z", "C", "N", "D", "F"):
                o[1] = 0.0
    return [[o, round(w, 3)] for o, w in opw]


def gen_schedule(sc, n):
    return [[sc.randrange(10000), sc.randrange(1 << 12), sc.randrange(1 << 12)] for _ in range(n)]
